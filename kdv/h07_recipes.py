"""Recipe table for the stochastic transforms of KappaData (shared by C07 / C08 / C09).

Everything is driven by plain JSON-able dicts so that a case spec can be replayed.

Vocabulary
----------
*type*   a dict describing what flows through a transform
           image    {"kind": "pil"|"tensor", "c": 1|3, "h": H, "w": W, "multi": k}   (multi>0: list of k such items,
                                                                                       only inside a compose chain)
           patches  {"kind": "patches", "c": C, "l": L, "ph": P, "pw": P}              tensor (C, L, P, P)
           semseg   {"kind": "semseg", "xkind": "pil"|"tensor", "c": 3, "h": H|None, "w": W|None, "ncls": K}
                                                                                       pair (image, mask tensor (H, W))
           stack    {"kind": "semseg_stack"}                                           terminal (stacked crops)
*node*   a dict describing how to build a transform (see `build_composition`)
           {"t": "leaf", "recipe": name, "params": {...}, "via": "ctor"|"dict"}
           {"t": "compose", "members": [node...], "implicit": bool}   implicit: handed over as a bare list
                      optional "edit": {"mode": "append"|"insert"|"replace"|"fill", "pos": i}: the public member list
                      `transforms` is edited after construction (member i appended / inserted / swapped in afterwards; fill =
                      a subclass that assigns self.transforms after super().__init__(transforms=[])); "members" is the final list
           {"t": "random_apply", "p": p, "child": node}
           {"t": "patchwise", "patch": k, "child": node}
           {"t": "scheduled", "child": node, "schedule": None|float, "active": None|{"rank","batch_size","updates"}}
           {"t": "semseg_seq", "members": [node...]}                  harness-side loop of SemsegTransformWrapper
         every node additionally carries "in": type (the type it is fed with), which makes each subtree a
         self-contained spec.

API
---
RECIPES                      dict name -> Recipe
Recipe.sample(rng, T)        -> (params, out_type) | None      (rng: random.Random; None = not applicable to T)
Recipe.build(params)         -> transform instance (real class from the repository)
Recipe.input_types(rng)      -> list of suitable input types (random sizes, boundary sizes included)
Recipe.make_input(seed, size=None, kind=None) -> input object for a quick standalone use
make_input(T, seed)          -> fresh input object of type T (no global RNG is touched)
clone_input(x)               -> deep copy of an input (several transforms write in place)
gen_composition(rng, T, depth, ...) -> (node, out_type)         random composition over the recipes
gen_leaf(rng, T, ...)        -> (node, out_type) | None
build_composition(node)      -> transform
node_classes(node)           -> names of all repository classes in the tree
iter_nodes(node)             -> all sub-nodes (pre-order)
discover_stochastic_classes()-> (sorted list of "module:Class", {module: import error})
covered_classes()            -> set of "module:Class" having a recipe / builder
uncovered_classes()          -> discovered - covered - ABSTRACT
probe_constructible(name)    -> None | error string    (recipes flagged may_be_unconstructible)
generator_census(obj)        -> list of (path, np.random.Generator) found by a bounded walk of the object graph
SemsegSequence               the loop SemsegTransformWrapper runs over its transforms, as a transform-like object
"""
from __future__ import annotations

import importlib
import inspect
import math
import pkgutil
import random as pyrandom
from dataclasses import dataclass, field
from typing import Callable, Optional

import numpy as np
import torch
from PIL import Image

INF = "inf"  # JSON-able spelling of float("inf") in params


def _f(v):
    return float("inf") if v == INF else v


# ------------------------------------------------------------------------------------------------- types
def t_img(kind, c, h, w, multi=0):
    return {"kind": kind, "c": c, "h": h, "w": w, "multi": multi}


def t_patches(c, l, p):
    return {"kind": "patches", "c": c, "l": l, "ph": p, "pw": p}


def t_semseg(xkind, h, w, ncls=5):
    return {"kind": "semseg", "xkind": xkind, "c": 3, "h": h, "w": w, "ncls": ncls}


def is_img(T):
    return T["kind"] in ("pil", "tensor")


def same_type(a, b):
    """type equality up to the memory-aliasing taint"""
    strip = lambda t: {k: v for k, v in t.items() if k != "alias" and not (k == "multi" and not v)}
    return strip(a) == strip(b)


def _inplace_ok(T):
    """in-place writers are kept away from tensors that may be expanded views (torch refuses to write into them):
    F.rgb_to_grayscale returns `gray.expand(3, h, w)`; the taint is sticky for the rest of a chain"""
    return not T.get("alias")


def single(T):
    if T.get("multi"):
        return dict(T, multi=0)
    return T


def make_input(T, seed):
    """fresh input of type T; seeded locally (never touches a global RNG)"""
    g = np.random.default_rng([int(seed) % (2 ** 63), 7])
    k = T["kind"]
    if k == "pil":
        arr = g.integers(0, 256, size=(T["h"], T["w"], T["c"]), dtype=np.uint8)
        if T["c"] == 1:
            return Image.fromarray(arr[:, :, 0], mode="L")
        return Image.fromarray(arr, mode="RGB")
    if k == "tensor":
        if int(seed) % 2:
            # 8-bit quantised like to_tensor(PIL image): contains exact 0.0 / 1.0 (saturated pixels sit on the boundaries of
            # solarize / threshold / clamp, so that draws which only matter there become visible)
            return torch.from_numpy(g.integers(0, 256, size=(T["c"], T["h"], T["w"])).astype(np.float32) / 255.0)
        return torch.from_numpy(g.random(size=(T["c"], T["h"], T["w"]), dtype=np.float32))
    if k == "patches":
        return torch.from_numpy(g.random(size=(T["c"], T["l"], T["ph"], T["pw"]), dtype=np.float32))
    if k == "semseg":
        x = make_input(t_img(T["xkind"], 3, T["h"], T["w"]), seed)
        # mask styles: uniform noise over the classes / one dominating class with a noisy rectangle (drives the
        # category-ratio retry loop of the random crop) / single class; always some ignore (-1) pixels
        style = int(seed) % 3
        if style == 0:
            seg = g.integers(0, T["ncls"], size=(T["h"], T["w"])).astype(np.int64)
        else:
            seg = np.full((T["h"], T["w"]), int(g.integers(0, T["ncls"])), dtype=np.int64)
            if style == 1:
                a, b = sorted(g.integers(0, T["h"] + 1, size=2))
                c, d = sorted(g.integers(0, T["w"] + 1, size=2))
                seg[a:b, c:d] = g.integers(0, T["ncls"], size=(b - a, d - c))
        seg[g.random(size=seg.shape) < 0.1] = -1
        return x, torch.from_numpy(seg)
    raise ValueError(k)


def clone_input(x):
    if torch.is_tensor(x):
        return x.clone()
    if isinstance(x, Image.Image):
        return x.copy()
    if isinstance(x, (tuple, list)):
        return type(x)(clone_input(v) for v in x)
    return x


# ------------------------------------------------------------------------------------------------- recipe
def _cls(path):
    mod, name = path.split(":")
    return getattr(importlib.import_module(mod), name)


@dataclass
class Recipe:
    name: str
    cls_path: str                       # "module:Class" of the repository class the recipe constructs
    sampler: Callable                   # (rng, T) -> (params, outT) | None
    ctor: Optional[Callable] = None     # params -> instance; default cls(**params)
    default_types: Callable = None      # rng -> list of input types
    stochastic: bool = True             # False: deterministic filler
    draws: bool = True                  # False: never consumes its generator (e.g. KDSemsegOverlappedMultiCrop)
    strength_ok: bool = True            # False: scale_strength refuses (own assertion) -> never below an active schedule
    plain: bool = True                  # ctor is cls(**params) with JSON-native params -> may be built via dict(kind=...)
    pipeline: bool = False
    may_be_unconstructible: bool = False
    kd: bool = True                     # False: not a KDTransform (only usable as a direct member of a compose)

    @property
    def cls(self):
        return _cls(self.cls_path)

    def sample(self, rng, T):
        return self.sampler(rng, T)

    def build(self, params):
        if self.ctor is not None:
            return self.ctor(dict(params))
        return self.cls(**{k: _f(v) for k, v in params.items()})

    def input_types(self, rng):
        return self.default_types(rng)

    def make_input(self, seed, size=None, kind=None):
        r = pyrandom.Random(seed)
        for T in self.input_types(r):
            if kind is not None and T["kind"] != kind:
                continue
            if size is not None and is_img(T):
                T = dict(T, h=size if isinstance(size, int) else size[0], w=size if isinstance(size, int) else size[1])
            return make_input(T, seed)
        raise ValueError(f"recipe {self.name} has no input of kind {kind}")


RECIPES: dict = {}
ABSTRACT = {
    "kappadata.transforms.base.kd_stochastic_transform:KDStochasticTransform",
    "kappadata.transforms.base.kd_random_apply_base:KDRandomApplyBase",
}
# containers constructed by build_composition rather than by a leaf recipe
CONTAINER_CLASSES = {
    "compose": "kappadata.transforms.base.kd_compose_transform:KDComposeTransform",
    "random_apply": "kappadata.transforms.kd_random_apply:KDRandomApply",
    "patchwise": "kappadata.transforms.patchwise_transform:PatchwiseTransform",
    "scheduled": "kappadata.transforms.base.kd_scheduled_transform:KDScheduledTransform",
}


def _reg(r):
    RECIPES[r.name] = r
    return r


# ---- size helpers
def _rand_hw(r, lo=8, hi=48, mult=1):
    def one():
        v = r.choice([lo, hi, r.randint(lo, hi), r.randint(lo, hi)])
        return max(mult, (v // mult) * mult)
    h = one()
    w = h if r.random() < 0.3 else one()
    return h, w


def _img_types(kinds=("pil", "tensor"), cs=(3,), lo=8, hi=48, mult=1):
    def f(r):
        out = []
        for k in kinds:
            for c in cs:
                if k == "pil" and c != 3:
                    continue
                h, w = _rand_hw(r, lo, hi, mult)
                out.append(t_img(k, c, h, w))
        return out
    return f


def _p(r):
    return r.choice([0.0, 1.0, 0.5, 0.5, 0.25, round(r.random(), 3)])


def _mag(r, prefix="magnitude"):
    """magnitude-sampler arguments: constant / uniform / clipped normal"""
    mode = r.choice(["uniform", "normal", "normal", "const"])
    if mode == "uniform":
        return {prefix: round(r.uniform(0.3, 1.0), 3), f"{prefix}_std": INF, f"{prefix}_min": round(r.uniform(0.0, 0.2), 3), f"{prefix}_max": 1.0}
    if mode == "normal":
        return {prefix: round(r.uniform(0.3, 0.8), 3), f"{prefix}_std": round(r.uniform(0.05, 0.5), 3), f"{prefix}_min": 0.1, f"{prefix}_max": 1.0}
    return {prefix: round(r.uniform(0.3, 1.0), 3), f"{prefix}_std": 0.0}


def _clip(r):
    return r.choice([{}, {}, {"clip_min": 0.0, "clip_max": 1.0}, {"clip_max": 0.9}])


def _only(T, kinds, cs=(1, 3)):
    return is_img(T) and not T.get("multi") and T["kind"] in kinds and T["c"] in cs


# ---- noise family (tensor)
def _s_add_gauss(r, T):
    if not _only(T, ("tensor",)):
        return None
    return {"std": r.choice([0.05, 0.3, 1.0]), **_mag(r), **_clip(r)}, dict(T)


_reg(Recipe("additive_gaussian_noise", "kappadata.transforms.kd_additive_gaussian_noise:KDAdditiveGaussianNoise", _s_add_gauss,
            default_types=_img_types(("tensor",), (1, 3))))


def _s_add_unif(r, T):
    if not _only(T, ("tensor",)):
        return None
    return {**_mag(r), **_clip(r)}, dict(T)


_reg(Recipe("additive_uniform_noise", "kappadata.transforms.kd_additive_uniform_noise:KDAdditiveUniformNoise", _s_add_unif,
            default_types=_img_types(("tensor",), (1, 3))))


def _s_rand_add_gauss(r, T):
    if not _only(T, ("tensor",)):
        return None
    # p is biased to 1 and the magnitude is never constant: the member's own draws must be observable
    m = _mag(r)
    while m["magnitude_std"] == 0.0:
        m = _mag(r)
    return {"p": r.choice([1.0, 1.0, 0.7, 0.5, _p(r)]), "std": r.choice([0.3, 1.0]), **m, **_clip(r)}, dict(T)


_reg(Recipe("random_additive_gaussian_noise", "kappadata.transforms.kd_random_additive_gaussian_noise:KDRandomAdditiveGaussianNoise",
            _s_rand_add_gauss, default_types=_img_types(("tensor",), (1, 3))))


def _thr(r):
    mode = r.choice(["normal", "normal", "uniform"])
    if mode == "normal":
        return {"threshold": round(r.uniform(0.3, 0.7), 3), "threshold_std": round(r.uniform(0.1, 0.4), 3), "threshold_min": 0.05, "threshold_max": 0.95}
    return {"threshold": round(r.uniform(0.4, 0.9), 3), "threshold_std": INF, "threshold_min": 0.05, "threshold_max": 1.0}


def _s_threshold(r, T):
    if not _only(T, ("tensor",)) or not _inplace_ok(T):
        return None
    return _thr(r), dict(T)


_reg(Recipe("threshold", "kappadata.transforms.kd_threshold:KDThreshold", _s_threshold, default_types=_img_types(("tensor",), (1, 3))))


def _s_rand_threshold(r, T):
    if not _only(T, ("tensor",)) or not _inplace_ok(T):
        return None
    return {"p": r.choice([1.0, 1.0, 0.7, 0.5, _p(r)]), **_thr(r)}, dict(T)


_reg(Recipe("random_threshold", "kappadata.transforms.kd_random_threshold:KDRandomThreshold", _s_rand_threshold,
            default_types=_img_types(("tensor",), (1, 3))))


# ---- colour family
def _cj(r):
    def amount(hi):
        m = r.choice(["zero", "scalar", "range"])
        if m == "zero":
            return 0
        if m == "scalar":
            return round(r.uniform(0.05, hi), 3)
        a = round(r.uniform(0.05, hi), 3)
        return [round(1 - a, 3), round(1 + a, 3)]
    d = {"brightness": amount(0.8), "contrast": amount(0.8), "saturation": amount(0.8)}
    h = r.choice([0, round(r.uniform(0.01, 0.5), 3), [-0.1, 0.2]])
    d["hue"] = h
    if all(v == 0 for v in d.values()):
        d["brightness"] = 0.4
    return d


def _s_color_jitter(r, T):
    if not _only(T, ("pil", "tensor")):
        return None
    return _cj(r), dict(T)


# strength_ok=False: KDColorJitter._scale_strength mis-computes its upper bounds (upper < lower after rounding -> numpy refuses the
# draw); strength scaling is the subject of another property (C15), so colour jitter is never put below an *active* schedule here
_reg(Recipe("color_jitter", "kappadata.transforms.kd_color_jitter:KDColorJitter", _s_color_jitter,
            default_types=_img_types(("pil", "tensor"), (1, 3)), strength_ok=False))


def _s_rand_color_jitter(r, T):
    if not _only(T, ("pil", "tensor")):
        return None
    return {"p": _p(r), **_cj(r)}, dict(T)


_reg(Recipe("random_color_jitter", "kappadata.transforms.kd_random_color_jitter:KDRandomColorJitter", _s_rand_color_jitter,
            default_types=_img_types(("pil", "tensor"), (1, 3)), strength_ok=False))


def _sigma(r):
    return r.choice([[0.1, 2.0], [0.5, 1.5], [0.1, 0.3], round(r.uniform(0.2, 2.0), 3)])


def _s_blur_pil(r, T):
    if not _only(T, ("pil", "tensor")):
        return None
    return {"sigma": _sigma(r)}, dict(T, kind="pil")


_reg(Recipe("gaussian_blur_pil", "kappadata.transforms.kd_gaussian_blur_pil:KDGaussianBlurPIL", _s_blur_pil,
            default_types=_img_types(("pil", "tensor"), (1, 3))))


def _s_rand_blur_pil(r, T):
    if not _only(T, ("pil",)):  # a tensor input would make the output kind depend on the draw
        return None
    return {"p": _p(r), "sigma": _sigma(r)}, dict(T)


_reg(Recipe("random_gaussian_blur_pil", "kappadata.transforms.kd_random_gaussian_blur_pil:KDRandomGaussianBlurPIL", _s_rand_blur_pil,
            default_types=_img_types(("pil",))))


def _s_blur_tv(r, T):
    if not _only(T, ("pil", "tensor")):
        return None
    k = r.choice([3, 5, 7])
    if k // 2 >= min(T["h"], T["w"]):  # reflect padding of the blur kernel needs pad < dim
        k = 3
    if k // 2 >= min(T["h"], T["w"]):
        return None
    return {"kernel_size": k, "sigma": _sigma(r)}, dict(T)


_reg(Recipe("gaussian_blur_tv", "kappadata.transforms.kd_gaussian_blur_tv:KDGaussianBlurTV", _s_blur_tv,
            default_types=_img_types(("pil", "tensor"), (1, 3))))


def _s_rand_blur_tv(r, T):
    o = _s_blur_tv(r, T)
    if o is None:
        return None
    return {"p": _p(r), **o[0]}, dict(T)


_reg(Recipe("random_gaussian_blur_tv", "kappadata.transforms.kd_random_gaussian_blur_tv:KDRandomGaussianBlurTV", _s_rand_blur_tv,
            default_types=_img_types(("pil", "tensor"), (1, 3))))


def _gray_out(T):
    return dict(T, alias=True) if (T["kind"] == "tensor" and T["c"] == 3) else dict(T)


def _s_rand_gray(r, T):
    if not _only(T, ("pil", "tensor")):
        return None
    return {"p": _p(r)}, _gray_out(T)


_reg(Recipe("random_grayscale", "kappadata.transforms.kd_random_grayscale:KDRandomGrayscale", _s_rand_gray,
            default_types=_img_types(("pil", "tensor"), (1, 3))))


def _s_rand_flip(r, T):
    if not _only(T, ("pil", "tensor")):
        return None
    return {"p": _p(r)}, dict(T)


_reg(Recipe("random_horizontal_flip", "kappadata.transforms.kd_random_horizontal_flip:KDRandomHorizontalFlip", _s_rand_flip,
            default_types=_img_types(("pil", "tensor"), (1, 3))))


def _s_rand_solarize(r, T):
    if not _only(T, ("pil", "tensor")):
        return None
    thr = r.choice([64, 128, 200]) if T["kind"] == "pil" else round(r.uniform(0.2, 0.8), 3)
    return {"p": _p(r), "threshold": thr}, dict(T)


_reg(Recipe("random_solarize", "kappadata.transforms.kd_random_solarize:KDRandomSolarize", _s_rand_solarize,
            default_types=_img_types(("pil", "tensor"), (1, 3))))


def _s_three_augment(r, T):
    if not _only(T, ("pil",), (3,)):
        return None
    return {"threshold": r.choice([64, 128]), "sigma": _sigma(r)}, dict(T)


_reg(Recipe("three_augment", "kappadata.transforms.kd_three_augment:KDThreeAugment", _s_three_augment, default_types=_img_types(("pil",))))


# ---- rand augment (PIL, RGB)
_N_OPS = []


def rand_augment_op_count():
    """size of KDRandAugment's op pool (read from an instance; the global NumPy state is restored)"""
    if not _N_OPS:
        st = np.random.get_state()
        try:
            t = _cls("kappadata.transforms.kd_rand_augment:KDRandAugment")(num_ops=1, magnitude=9, fill_color=(0, 0, 0), interpolation="bilinear")
            _N_OPS.append(len(t.ops))
        finally:
            np.random.set_state(st)
    return _N_OPS[0]


# boundary configurations that every run drives at least once per input kind (overrides on top of sampled params)
BOUNDARY_PARAMS = {
    "rand_augment": lambda: [{"num_ops": rand_augment_op_count(), "apply_op_p": 1.0}, {"num_ops": 1}, {"num_ops": rand_augment_op_count()}],
    "rand_augment_custom": lambda: [{"num_ops": rand_augment_op_count(), "apply_op_p": 1.0}, {"num_ops": 1}, {"num_ops": rand_augment_op_count()}],
    "threshold": lambda: [{"threshold": 0.5, "threshold_std": 0.3, "threshold_min": 0.05, "threshold_max": 0.95}],
    "random_threshold": lambda: [{"p": 1.0, "threshold": 0.5, "threshold_std": 0.3, "threshold_min": 0.05, "threshold_max": 0.95}],
}


def _s_rand_augment(custom):
    def f(r, T):
        if not _only(T, ("pil",), (3,)):
            return None
        d = {
            "num_ops": r.choice([1, 2, 2, 3, 5, rand_augment_op_count()]),
            "magnitude": r.choice([9, 5, 10, 1]),
            "fill_color": r.choice([[124, 116, 104], [0, 0, 0], [128, 128, 128]]),
            "interpolation": r.choice(["bicubic", "bilinear", "random", "nearest"]),
            "magnitude_std": r.choice([0.0, 0.5, 0.5, INF]),
            "apply_op_p": r.choice([0.5, 0.5, 1.0, 0.8]),
        }
        return d, dict(T)
    return f


_reg(Recipe("rand_augment", "kappadata.transforms.kd_rand_augment:KDRandAugment", _s_rand_augment(False), default_types=_img_types(("pil",))))
_reg(Recipe("rand_augment_custom", "kappadata.transforms.kd_rand_augment_custom:KDRandAugmentCustom", _s_rand_augment(True),
            default_types=_img_types(("pil",))))


# ---- geometry
def _crop_size(r, h, w):
    """(sh, sw) <= (h, w), biased to the boundary (equal to the image, one pixel smaller)"""
    def one(n):
        return r.choice([n, n, max(1, n - 1), max(1, n // 2), r.randint(1, n)])
    sh, sw = one(h), one(w)
    if r.random() < 0.4:
        sh = sw = min(sh, sw)
    return sh, sw


def _s_random_crop(r, T):
    if not _only(T, ("pil", "tensor")):
        return None
    h, w = T["h"], T["w"]
    pad = r.choice([None, None, 0, 1, 2, 4])
    ph, pw = h + 2 * (pad or 0), w + 2 * (pad or 0)
    pin = r.random() < 0.25
    if pin:
        # pad_if_needed: the requested size may exceed the (padded) image
        mode = r.choice(["constant", "edge"])
        sh, sw = r.randint(1, ph + 4), r.randint(1, pw + 4)
    else:
        mode = r.choice(["constant", "constant", "reflect", "edge"])
        if mode == "reflect" and (pad or 0) >= min(h, w):
            mode = "constant"
        sh, sw = _crop_size(r, ph, pw)
    size = sh if (sh == sw and r.random() < 0.5) else [sh, sw]
    d = {"size": size, "padding": pad, "pad_if_needed": pin, "fill": 0, "padding_mode": mode}
    return d, dict(T, h=sh, w=sw)


_reg(Recipe("random_crop", "kappadata.transforms.kd_random_crop:KDRandomCrop", _s_random_crop,
            default_types=_img_types(("pil", "tensor"), (1, 3))))


def _s_two_random_crop(r, T):
    if not _only(T, ("pil", "tensor")):
        return None
    h, w = T["h"], T["w"]
    sh, sw = _crop_size(r, h, w)
    size = sh if (sh == sw and r.random() < 0.5) else [sh, sw]
    ov = r.choice([{}, {}, {"overlap_min": 0.1}, {"overlap_max": 0.6}, {"overlap_min": 0.2, "overlap_max": 0.8}])
    d = {"size": size, "tries": r.choice([20, 3, 1]), **ov}
    return d, dict(T, h=sh, w=sw, multi=2)


_reg(Recipe("two_random_crop", "kappadata.transforms.kd_two_random_crop:KDTwoRandomCrop", _s_two_random_crop,
            default_types=_img_types(("pil", "tensor"), (1, 3))))


def _s_rrc(r, T):
    if not _only(T, ("pil", "tensor")):
        return None
    s = r.choice([4, 8, 16, 24, r.randint(4, 32)])
    size = s if r.random() < 0.7 else [s, max(2, s // 2)]
    sh, sw = (s, s) if isinstance(size, int) else size
    d = {"size": size, "scale": r.choice([[0.08, 1.0], [0.25, 1.0], [0.05, 0.25], [1.0, 1.0]]),
         "ratio": r.choice([[0.75, 4 / 3], [0.5, 2.0], [1.0, 1.0]]),
         "interpolation": r.choice(["bilinear", "bicubic", "nearest"])}
    return d, dict(T, h=sh, w=sw)


_reg(Recipe("random_resized_crop", "kappadata.transforms.kd_random_resized_crop:KDRandomResizedCrop", _s_rrc,
            default_types=_img_types(("pil", "tensor"), (1, 3))))


def _s_rotation(r, T):
    if not _only(T, ("pil", "tensor")):
        return None
    deg = r.choice([30, 90, 180, [-10, 45], [0, 360]])
    fill = r.choice([0, 0, 0.5 if T["kind"] == "tensor" else 128])
    return {"degrees": deg, "interpolation": r.choice(["nearest", "bilinear"]), "fill": fill}, dict(T)


_reg(Recipe("random_rotation", "kappadata.transforms.kd_random_rotation:KDRandomRotation", _s_rotation,
            default_types=_img_types(("pil", "tensor"), (1, 3)), strength_ok=False))


def _s_simple_crop(r, T):
    if not _only(T, ("pil", "tensor")):
        return None
    s = r.choice([8, 12, 16, r.randint(6, 24)])
    pad = r.choice([4, 4, 0, 2])
    mode = r.choice(["reflect", "reflect", "constant"])
    if mode == "reflect" and pad >= s:
        pad = 2
    return {"size": s, "padding": pad, "interpolation": r.choice(["bicubic", "bilinear"]), "padding_mode": mode}, dict(T, h=s, w=s)


_reg(Recipe("simple_random_crop", "kappadata.transforms.kd_simple_random_crop:KDSimpleRandomCrop", _s_simple_crop,
            default_types=_img_types(("pil", "tensor"), (1, 3))))


def _s_erasing(r, T):
    if not _only(T, ("tensor",)) or not _inplace_ok(T):
        return None
    mn = r.choice([1, 1, 2])
    mx = r.choice([None, None, mn + 1, mn + 3])
    d = {"p": r.choice([1.0, 0.5, 0.25, _p(r)]), "mode": r.choice(["zeros", "channelwise", "pixelwise", "pixelwise"]),
         "min_count": mn, "max_count": mx, "min_area": 0.02, "max_area": r.choice([1 / 3, 0.6])}
    return d, dict(T)


_reg(Recipe("random_erasing", "kappadata.transforms.kd_random_erasing:KDRandomErasing", _s_erasing,
            default_types=_img_types(("tensor",), (1, 3))))


# ---- audio (any 3-d tensor; a spectrogram is a (1, time, freq) tensor)
def _s_mag_jitter(r, T):
    if not _only(T, ("tensor",)):
        return None
    return {"alpha": r.choice([1, 10, 0.5]), "inplace": r.random() < 0.5 and _inplace_ok(T)}, dict(T)


def _spec_types(r):
    return [t_img("tensor", 1, r.choice([16, 32, r.randint(8, 64)]), r.choice([8, 16, r.randint(4, 32)])),
            t_img("tensor", 3, *_rand_hw(r))]


_reg(Recipe("magnitude_jitter", "kappadata.transforms.audio.kd_magnitude_jitter:KDMagnitudeJitter", _s_mag_jitter, default_types=_spec_types))


def _s_roll(r, T):
    if not _only(T, ("tensor",)):
        return None
    return {}, dict(T)


_reg(Recipe("roll", "kappadata.transforms.audio.kd_roll:KDRoll", _s_roll, default_types=_spec_types))


def _s_spec_augment(r, T):
    if not _only(T, ("tensor",)):
        return None
    tm = r.choice([None, max(1, T["h"] // 3), T["h"], 1])
    fm = r.choice([None, max(1, T["w"] // 3), T["w"], 1])
    if tm is None and fm is None:
        tm = max(1, T["h"] // 2)
    return {"time_masking": tm, "frequency_masking": fm}, dict(T)


_reg(Recipe("spec_augment", "kappadata.transforms.audio.kd_spec_augment:KDSpecAugment", _s_spec_augment, default_types=_spec_types))


# ---- patch domain
def _patch_types(r):
    out = []
    for c in (1, 3):
        out.append(t_patches(c, r.choice([1, 2, 6, r.randint(1, 12)]), r.choice([2, 4, 8])))
    return out


def _s_patch(r, T):
    if T["kind"] != "patches":
        return None
    return {}, dict(T)


def _s_patch_rot(r, T):
    if T["kind"] != "patches" or not _inplace_ok(T):
        return None
    return {}, dict(T)


_reg(Recipe("patchwise_random_rotation", "kappadata.transforms.patchwise_random_rotation:PatchwiseRandomRotation", _s_patch_rot, default_types=_patch_types))
_reg(Recipe("patchwise_shuffle", "kappadata.transforms.patchwise_shuffle:PatchwiseShuffle", _s_patch, default_types=_patch_types))


def _divisors(n, lo=2):
    return [d for d in range(lo, n + 1) if n % d == 0]


def _s_to_patches(r, T):
    if not _only(T, ("pil", "tensor")):
        return None
    ds = [d for d in _divisors(math.gcd(T["h"], T["w"])) if d <= 16]
    if not ds:
        return None
    p = r.choice(ds)
    out = t_patches(T["c"], (T["h"] // p) * (T["w"] // p), p)
    if T.get("alias"):
        out["alias"] = True
    return {"patch_size": p}, out


def _c_to_patches(params):
    from kappadata.transforms import KDComposeTransform, KDRearrange, Patchify
    return KDComposeTransform([Patchify(params["patch_size"]), KDRearrange("c sh sw ph pw -> c (sh sw) ph pw")])


_reg(Recipe("det_to_patches", "kappadata.transforms.patchify:Patchify", _s_to_patches, ctor=_c_to_patches, stochastic=False, draws=False, plain=False,
            default_types=_img_types(("tensor",), (1, 3), mult=8)))


def _s_patch_norm(r, T):
    if T["kind"] != "patches" or T["c"] * T["ph"] * T["pw"] < 2:
        return None
    return {}, dict(T)


_reg(Recipe("det_patchwise_norm", "kappadata.transforms.patchwise_norm:PatchwiseNorm", _s_patch_norm, stochastic=False, draws=False,
            default_types=_patch_types))


# ---- deterministic fillers (image domain)
def _s_same(kinds=("pil", "tensor")):
    def f(r, T):
        if not _only(T, kinds):
            return None
        return {}, dict(T)
    return f


_reg(Recipe("det_identity", "kappadata.transforms.identity:Identity", _s_same(), stochastic=False, draws=False, default_types=_img_types()))
_reg(Recipe("det_kd_identity", "kappadata.transforms.base.kd_identity_transform:KDIdentityTransform", _s_same(), stochastic=False, draws=False,
            default_types=_img_types()))
_reg(Recipe("det_hflip", "kappadata.transforms.kd_horizontal_flip:KDHorizontalFlip", _s_same(), stochastic=False, draws=False, default_types=_img_types()))


def _s_det_gray(r, T):
    if not _only(T, ("pil", "tensor")):
        return None
    return {}, _gray_out(T)


_reg(Recipe("det_grayscale", "kappadata.transforms.kd_grayscale:KDGrayscale", _s_det_gray, stochastic=False, draws=False, default_types=_img_types()))


def _s_range_norm(r, T):
    if not _only(T, ("pil", "tensor")):
        return None
    return {"inplace": r.random() < 0.7 and _inplace_ok(T)}, dict(T, kind="tensor")


_reg(Recipe("det_range_norm", "kappadata.transforms.norm.kd_image_range_norm:KDImageRangeNorm", _s_range_norm, stochastic=False, draws=False,
            default_types=_img_types()))


def _s_save_state(r, T):
    if not _only(T, ("pil", "tensor")):
        return None
    return {"state_name": r.choice(["saved", "state0"])}, dict(T)


_reg(Recipe("det_save_state", "kappadata.transforms.save_state_to_context_transform:SaveStateToContextTransform", _s_save_state, stochastic=False,
            draws=False, default_types=_img_types()))


def _s_resize(r, T):
    if not _only(T, ("pil", "tensor")):
        return None
    sh, sw = r.randint(4, 32), r.randint(4, 32)
    return {"size": [sh, sw], "interpolation": r.choice(["bilinear", "bicubic"])}, dict(T, h=sh, w=sw)


_reg(Recipe("det_resize", "kappadata.transforms.kd_resize:KDResize", _s_resize, stochastic=False, draws=False, default_types=_img_types()))


def _s_tv_to_tensor(r, T):
    if not _only(T, ("pil",)):
        return None
    return {}, dict(T, kind="tensor")


def _c_tv_to_tensor(params):
    from torchvision.transforms import ToTensor
    return ToTensor()


# a member that is not a KDTransform (KDComposeTransform calls it without ctx and does not forward set_rng to it)
_reg(Recipe("det_tv_to_tensor", "torchvision.transforms:ToTensor", _s_tv_to_tensor, ctor=_c_tv_to_tensor, stochastic=False, draws=False, plain=False,
            kd=False, default_types=_img_types(("pil",))))


# ---- semseg domain
def _semseg_types(r):
    out = []
    for xk in ("tensor", "pil"):
        h, w = _rand_hw(r, 8, 40)
        out.append(t_semseg(xk, h, w, ncls=r.choice([2, 5, 20])))
    return out


def _semseg_types_even(r):
    out = []
    for _ in range(2):
        h, w = _rand_hw(r, 8, 40, mult=8)
        out.append(t_semseg("tensor", h, w, ncls=r.choice([2, 5])))
    return out


def _s_semseg_crop(r, T):
    if T["kind"] != "semseg":
        return None
    h, w = T["h"], T["w"]
    if h is None:
        sh = sw = r.choice([8, 16, 24])
        out = dict(T)  # still unknown
    else:
        # crops stay >= 6 px: a 1-px-wide strip followed by an aspect-preserving random resize would be asked to shrink to
        # 0 px (degenerate geometry, not a seeding matter)
        sh = r.choice([h, max(6, h - 1), max(6, h // 2), h + 3, r.randint(min(6, h), h)])
        sw = r.choice([w, max(6, w - 1), max(6, w // 2), w + 3, r.randint(min(6, w), w)])
        if r.random() < 0.4:
            sh = sw = min(sh, sw)
        out = dict(T, h=min(h, sh), w=min(w, sw))
    size = sh if (sh == sw and r.random() < 0.5) else [sh, sw]
    return {"size": size, "max_category_ratio": r.choice([1.0, 1.0, 0.75, 0.5]), "ignore_index": -1}, out


_reg(Recipe("semseg_random_crop", "kappadata.transforms.semseg.kd_semseg_random_crop:KDSemsegRandomCrop", _s_semseg_crop, default_types=_semseg_types))


def _s_semseg_flip(r, T):
    if T["kind"] != "semseg":
        return None
    return {"p": _p(r)}, dict(T)


_reg(Recipe("semseg_random_horizontal_flip", "kappadata.transforms.semseg.kd_semseg_random_horizontal_flip:KDSemsegRandomHorizontalFlip", _s_semseg_flip,
            default_types=_semseg_types))


def _s_semseg_resize(r, T):
    if T["kind"] != "semseg":
        return None
    d = {"base_size": r.choice([[32, 16], [16, 16], 24, [20, 40]]), "ratio": r.choice([[0.5, 2.0], [0.75, 1.25], [1.0, 1.5]]),
         "interpolation": r.choice(["bilinear", "nearest", "bicubic"])}
    return d, dict(T, h=None, w=None)


_reg(Recipe("semseg_random_resize", "kappadata.transforms.semseg.kd_semseg_random_resize:KDSemsegRandomResize", _s_semseg_resize,
            default_types=_semseg_types))
_reg(Recipe("semseg_random_resize_old", "kappadata.transforms.semseg.kd_semseg_random_resize_old:KDSemsegRandomResizeOld", _s_semseg_resize,
            default_types=_semseg_types))


def _s_semseg_multicrop(r, T):
    if T["kind"] != "semseg" or T["xkind"] != "tensor" or T["h"] is None:
        return None
    hs = [d for d in _divisors(T["h"]) if d % 2 == 0]
    ws = [d for d in _divisors(T["w"]) if d % 2 == 0]
    if not hs or not ws:
        return None
    return {"crop_size": [r.choice(hs), r.choice(ws)]}, {"kind": "semseg_stack"}


_reg(Recipe("semseg_overlapped_multi_crop", "kappadata.transforms.semseg.kd_semseg_overlapped_multi_crop:KDSemsegOverlappedMultiCrop",
            _s_semseg_multicrop, default_types=_semseg_types_even, draws=False))


def _s_semseg_pad(r, T):
    if T["kind"] != "semseg":
        return None
    s = r.choice([16, 24, 40])
    out = dict(T) if T["h"] is None else dict(T, h=max(T["h"], s), w=max(T["w"], s))
    return {"size": s}, out


_reg(Recipe("det_semseg_pad", "kappadata.transforms.semseg.kd_semseg_pad:KDSemsegPad", _s_semseg_pad, stochastic=False, draws=False,
            default_types=_semseg_types))


def _s_semseg_detresize(r, T):
    if T["kind"] != "semseg":
        return None
    sh, sw = r.randint(4, 32), r.randint(4, 32)
    return {"size": [sh, sw], "interpolation": r.choice(["bilinear", "nearest"])}, dict(T, h=sh, w=sw)


_reg(Recipe("det_semseg_resize", "kappadata.transforms.semseg.kd_semseg_resize:KDSemsegResize", _s_semseg_detresize, stochastic=False, draws=False,
            default_types=_semseg_types))


# ---- ready-made pipelines (PIL RGB in, normalised tensor out)
def _pipe_types(r):
    h, w = _rand_hw(r, 12, 48)
    return [t_img("pil", 3, h, w)]


def _s_pipe(size_key="size", extra=None, out_kind="tensor"):
    def f(r, T):
        if not _only(T, ("pil",), (3,)):
            return None
        s = r.choice([8, 16, 24, 32])
        d = {size_key: s}
        if extra is not None:
            d.update(extra(r))
        return d, dict(T, kind=out_kind, h=s, w=s)
    return f


def _byol_extra(r):
    # p = 0 drops the member from the pipeline; norm as (mean, std) or absent ("imagenet" string: see byol_default_norm)
    d = {"flip_p": r.choice([0.5, 0.0, 1.0]), "color_jitter_p": r.choice([0.8, 0.0, 1.0]), "gaussian_blur_p": r.choice([0.1, 1.0, 0.0, 0.5]),
         "grayscale_p": r.choice([0.2, 0.0, 1.0]), "solarize_p": r.choice([0.2, 0.0, 1.0]),
         "min_scale": r.choice([0.08, 0.25]), "interpolation": r.choice(["bicubic", "bilinear"]),
         "norm": [[0.485, 0.456, 0.406], [0.229, 0.224, 0.225]]}
    return d


_CT = "kappadata.common.transforms."
_reg(Recipe("pipe_byol_param", _CT + "byol_transforms:BYOLTransform", _s_pipe(extra=_byol_extra), default_types=_pipe_types, pipeline=True, strength_ok=False))


def _s_byol_nonorm(r, T):
    o = _s_pipe(extra=_byol_extra)(r, T)
    if o is None:
        return None
    o[0]["norm"] = None
    return o[0], dict(o[1], kind="pil")


_reg(Recipe("pipe_byol_nonorm", _CT + "byol_transforms:BYOLTransform", _s_byol_nonorm, default_types=_pipe_types, pipeline=True, strength_ok=False))
_reg(Recipe("pipe_byol0", _CT + "byol_transforms:BYOLTransform0", _s_pipe(), default_types=_pipe_types, pipeline=True, strength_ok=False))
_reg(Recipe("pipe_byol1", _CT + "byol_transforms:BYOLTransform1", _s_pipe(), default_types=_pipe_types, pipeline=True, strength_ok=False))
_reg(Recipe("pipe_imagenet_minaug", _CT + "imagenet_minaug_transforms:ImagenetMinaugTransform", _s_pipe(), default_types=_pipe_types, pipeline=True))
_reg(Recipe("pipe_mugs_strong", _CT + "mugs_transforms:MUGSStrongTransform", _s_pipe(), default_types=_pipe_types, pipeline=True))
_reg(Recipe("pipe_mugs_strong_global", _CT + "mugs_transforms:MUGSStrongGlobalTransform", _s_pipe(), default_types=_pipe_types, pipeline=True))
_reg(Recipe("pipe_mugs_strong_local", _CT + "mugs_transforms:MUGSStrongLocalTransform", _s_pipe(), default_types=_pipe_types, pipeline=True))


def _s_noaug(r, T):
    if not _only(T, ("pil",), (3,)):
        return None
    s = r.choice([8, 16])
    return {"resize_size": s + r.choice([0, 4]), "center_crop_size": s}, dict(T, kind="tensor", h=s, w=s)


_reg(Recipe("pipe_imagenet_noaug", _CT + "imagenet_noaug_transforms:ImagenetNoaugTransform", _s_noaug, default_types=_pipe_types, pipeline=True,
            stochastic=False, draws=False))


# pipelines whose documented default construction crashes on the current tree; probed at run time, judged only if constructible
_reg(Recipe("pipe_byol_default_norm", _CT + "byol_transforms:BYOLTransform", _s_pipe(), default_types=_pipe_types, pipeline=True, strength_ok=False,
            may_be_unconstructible=True))


def _s_mae(r, T):
    if not _only(T, ("pil",), (3,)):
        return None
    return {}, dict(T, kind="tensor", h=224, w=224)


_reg(Recipe("pipe_mae_finetune", _CT + "mae_finetune_transform:MAEFinetuneTransform", _s_mae, default_types=_pipe_types, pipeline=True,
            may_be_unconstructible=True))


def probe_constructible(name):
    """None if RECIPES[name] can be constructed with sampled default params, else the error text"""
    rec = RECIPES[name]
    r = pyrandom.Random(0)
    T = rec.input_types(r)[0]
    params, _ = rec.sample(r, T)
    st = np.random.get_state()
    try:
        rec.build(params)
        return None
    except Exception as e:  # noqa: BLE001 - reported, not judged
        return f"{type(e).__name__}: {e}"
    finally:
        np.random.set_state(st)


# ------------------------------------------------------------------------------------------------- compositions
class SemsegSequence:
    """the loop `SemsegTransformWrapper.getitem_xsemseg` runs over its transforms (one generator handed to every member,
    (image, mask) pairs passed to every semseg transform), as a transform-like object"""

    def __init__(self, transforms):
        self.transforms = list(transforms)

    def set_rng(self, rng):
        for t in self.transforms:
            t.set_rng(rng)
        return self

    def __call__(self, xsemseg, ctx=None):
        x, semseg = xsemseg
        for t in self.transforms:
            x, semseg = t((x, semseg), ctx=ctx)
        return x, semseg


_FILLED = []


def _filled_cls():
    if not _FILLED:
        import kappadata.transforms as kdt

        class FilledComposeImpl(kdt.KDComposeTransform):
            """a user-side pipeline class that fills its member list after calling the base constructor"""

            def __init__(self, members):
                super().__init__(transforms=[])
                self.transforms = list(members)

        FilledComposeImpl.__module__ = __name__
        FilledComposeImpl.__qualname__ = "FilledComposeImpl"
        globals()["FilledComposeImpl"] = FilledComposeImpl  # importable by name -> picklable
        _FILLED.append(FilledComposeImpl)
    return _FILLED[0]


def FilledCompose(members):
    return _filled_cls()(members)


def build_composition(node):
    """node -> transform (real repository classes). Global numpy RNG is consumed by the constructors (by design of the
    library); the caller decides under which global seed this happens."""
    import kappadata.transforms as kdt
    from kappadata.factory import object_to_transform
    t = node["t"]
    if t == "leaf":
        rec = RECIPES[node["recipe"]]
        if node.get("via") == "dict":
            return object_to_transform(_leaf_as_dict(node))
        return rec.build(node["params"])
    if t == "compose":
        members = []
        for m in node["members"]:
            if m["t"] == "leaf" and m.get("via") == "dict":
                members.append(_leaf_as_dict(m))              # resolved by the library's factory
            elif m["t"] == "compose" and m.get("implicit") and not m.get("edit"):
                members.append([build_composition(mm) for mm in m["members"]])  # bare list = implicit compose
            else:
                members.append(build_composition(m))
        edit = node.get("edit")
        if not edit:
            return kdt.KDComposeTransform(members)
        # the member list is a public attribute (same idiom as torchvision.transforms.Compose): edit it after construction
        mode, pos = edit["mode"], edit.get("pos", 0)
        if mode == "fill":
            return FilledCompose([object_to_transform(m) for m in members])
        late = build_composition(node["members"][pos])  # the member that arrives after construction, as an object
        if mode == "append":
            tr = kdt.KDComposeTransform(members[:-1])
            tr.transforms.append(late)
        elif mode == "insert":
            tr = kdt.KDComposeTransform(members[:pos] + members[pos + 1:])
            tr.transforms.insert(pos, late)
        elif mode == "replace":
            tr = kdt.KDComposeTransform(members)  # built with another instance of the same member, swapped afterwards
            tr.transforms[pos] = late
        else:
            raise ValueError(mode)
        return tr
    if t == "random_apply":
        return kdt.KDRandomApply(transform=build_composition(node["child"]), p=node["p"])
    if t == "patchwise":
        return kdt.PatchwiseTransform(patch_size=node["patch"], transform=build_composition(node["child"]))
    if t == "scheduled":
        kw = {}
        if node.get("schedule") is not None:
            kw["schedule"] = node["schedule"]
        tr = kdt.KDScheduledTransform(transform=build_composition(node["child"]), **kw)
        act = node.get("active")
        if act:
            tr.worker_init_fn(act["rank"], batch_size=act["batch_size"], updates=act["updates"])
        return tr
    if t == "semseg_seq":
        return SemsegSequence([build_composition(m) for m in node["members"]])
    raise ValueError(t)


_RESOLVABLE = {}


def factory_resolvable(rec):
    """can kappadata.factory.object_to_transform(dict(kind=<ClassName>, **params)) construct this recipe's class?
    (the factory only sees names exported by kappadata.transforms / kappadata.common.transforms / torchvision.transforms)"""
    if rec.name not in _RESOLVABLE:
        ok = False
        if rec.plain and rec.kd:
            import kappadata.common.transforms as kct
            import kappadata.transforms as kdt
            cls = rec.cls
            ok = getattr(kct, cls.__name__, getattr(kdt, cls.__name__, None)) is cls
        _RESOLVABLE[rec.name] = ok
    return _RESOLVABLE[rec.name]


def _leaf_as_dict(node):
    rec = RECIPES[node["recipe"]]
    return dict(kind=rec.cls.__name__, **{k: _f(v) for k, v in node["params"].items()})


def iter_nodes(node):
    yield node
    if node["t"] in ("compose", "semseg_seq"):
        for m in node["members"]:
            yield from iter_nodes(m)
    elif node["t"] in ("random_apply", "patchwise", "scheduled"):
        yield from iter_nodes(node["child"])


def node_classes(node):
    out = []
    for n in iter_nodes(node):
        if n["t"] == "leaf":
            out.append(RECIPES[n["recipe"]].cls.__name__)
        elif n["t"] in CONTAINER_CLASSES:
            out.append(CONTAINER_CLASSES[n["t"]].split(":")[1])
        else:
            out.append("SemsegSequence")
    return out


def node_label(node):
    """class name of the transform a node builds (used to name mechanisms)"""
    if node["t"] == "leaf":
        return RECIPES[node["recipe"]].cls.__name__
    if node["t"] in CONTAINER_CLASSES:
        return CONTAINER_CLASSES[node["t"]].split(":")[1]
    return "SemsegSequence"


def node_depth(node):
    if node["t"] == "leaf":
        return 0
    if node["t"] in ("compose", "semseg_seq"):
        return 1 + max([node_depth(m) for m in node["members"]] + [0])
    return 1 + node_depth(node["child"])


def has_stochastic_leaf(node):
    return any(n["t"] == "leaf" and RECIPES[n["recipe"]].stochastic and RECIPES[n["recipe"]].draws for n in iter_nodes(node))


_IMG_LEAVES = None


def _leaf_pool(T, flags):
    names = []
    probe = pyrandom.Random(1)
    for name, rec in RECIPES.items():
        if rec.may_be_unconstructible and name not in flags.get("constructible", ()):
            continue
        if flags.get("under_schedule") and not rec.strength_ok:
            continue
        if flags.get("no_pipeline") and rec.pipeline:
            continue
        if not rec.kd and not flags.get("direct_compose_member"):
            continue
        if rec.sample(probe, T) is None:  # applicability depends on the type only
            continue
        names.append(name)
    return names


def gen_leaf(rng, T, flags=None, want_stochastic=None, tries=25):
    """random applicable leaf for input type T -> (node, outT) | None.
    flags: preserve (output type must equal T), no_multi, under_schedule, no_pipeline, constructible (names)"""
    flags = flags or {}
    pool = _leaf_pool(single(T), flags)
    if not pool:
        return None
    for _ in range(tries):
        name = rng.choice(pool)
        rec = RECIPES[name]
        if want_stochastic is True and not rec.stochastic:
            continue
        if want_stochastic is False and rec.stochastic:
            continue
        o = rec.sample(rng, single(T))
        if o is None:
            continue
        params, outT = o
        if flags.get("preserve") and not same_type(outT, single(T)):
            continue
        if flags.get("no_multi") and outT.get("multi"):
            continue
        if flags.get("known_size") and is_img(outT) and outT["h"] is None:
            continue
        node = {"t": "leaf", "recipe": name, "params": params, "in": single(T)}
        return node, outT
    return None


def _fallback_leaf(rng, T):
    """a leaf that always applies and preserves the type"""
    if is_img(T):
        name, params = "random_horizontal_flip", {"p": 0.5}
    elif T["kind"] == "patches":
        name, params = "patchwise_shuffle", {}
    elif T["kind"] == "semseg":
        name, params = "semseg_random_horizontal_flip", {"p": 0.5}
    else:
        raise ValueError(T)
    return {"t": "leaf", "recipe": name, "params": params, "in": single(T)}, single(T)


def gen_composition(rng, T, depth, flags=None, top=True):
    """random composition (compose / random-apply / patchwise / scheduled, nested up to `depth`) for input type T.
    -> (node, outT). Every generated tree is well-typed for inputs of type T: sizes, PIL/tensor kinds, channel counts and
    list-valued outputs (two-crop) are tracked so that the real classes are only driven inside their documented domain."""
    flags = dict(flags or {})
    dcm = flags.pop("direct_compose_member", False)
    Ts = single(T)
    if depth <= 0 or Ts["kind"] == "semseg_stack":
        o = gen_leaf(rng, Ts, dict(flags, direct_compose_member=dcm), want_stochastic=True if rng.random() < 0.8 else None)
        return o if o is not None else _fallback_leaf(rng, Ts)

    kinds = ["leaf", "compose", "compose", "random_apply", "scheduled"]
    if is_img(Ts) and not (flags.get("preserve") and Ts["kind"] == "pil"):
        if _patch_sizes(Ts):
            kinds += ["patchwise", "patchwise"]
    if Ts["kind"] == "semseg":
        kinds = ["leaf", "random_apply", "scheduled"] + (["semseg_seq", "semseg_seq"] if top else [])
    kind = rng.choice(kinds)

    if kind == "leaf":
        return gen_composition(rng, Ts, 0, dict(flags, direct_compose_member=dcm), top=False)

    if kind == "compose":
        n = rng.choice([1, 2, 2, 3, 4])
        members, cur = [], Ts
        for i in range(n):
            if cur["kind"] == "semseg_stack":
                break
            f = dict(flags, direct_compose_member=True)
            if cur.get("multi"):
                f["no_multi"] = True  # at most one list-producing member per chain
            sub, out1 = gen_composition(rng, single(cur), rng.randint(0, depth - 1), f, top=False)
            if sub["t"] == "compose" and rng.random() < 0.3:
                sub["implicit"] = True
            if sub["t"] == "leaf" and factory_resolvable(RECIPES[sub["recipe"]]) and rng.random() < 0.2:
                sub["via"] = "dict"
            members.append(sub)
            if cur.get("multi") and out1["kind"] != "semseg_stack":
                out1 = dict(out1, multi=cur["multi"])
            cur = out1
        node = {"t": "compose", "members": members, "in": Ts}
        if members and rng.random() < 0.3:
            mode = rng.choice(["append", "insert", "replace", "fill"])
            sto = [i for i, m in enumerate(members) if has_stochastic_leaf(m)]
            pos = len(members) - 1 if mode == "append" else (rng.choice(sto) if sto and rng.random() < 0.8 else rng.randrange(len(members)))
            node["edit"] = {"mode": mode, "pos": pos}
        return node, cur

    if kind == "random_apply":
        f = dict(flags, preserve=True, no_multi=True, known_size=True)
        child, outT = _gen_preserving(rng, Ts, depth - 1, f)
        return {"t": "random_apply", "p": rng.choice([0.0, 1.0, 0.5, 0.5, 0.3, 0.8]), "child": child, "in": Ts}, outT

    if kind == "scheduled":
        active = None
        schedule = None
        f = dict(flags)
        if rng.random() < 0.6:
            # batch_size is astronomically large: every call of the run falls into batch 0, the schedule value is a
            # constant of the case (the position in the schedule is training progress, not randomness)
            active = {"rank": 0, "batch_size": 2 ** 40, "updates": rng.choice([1, 5, 100])}
            schedule = rng.choice([None, 1.0, 0.5, 0.3, 0.7])
            f["under_schedule"] = True
        child, outT = gen_composition(rng, Ts, depth - 1, f, top=False)
        return {"t": "scheduled", "child": child, "schedule": schedule, "active": active, "in": Ts}, outT

    if kind == "patchwise":
        p = rng.choice(_patch_sizes(Ts))
        Tp = t_img("tensor", Ts["c"], p, p)
        if Ts.get("alias"):
            Tp["alias"] = True
        f = dict(flags, no_multi=True, keep_size=True, no_pipeline=True)
        f.pop("preserve", None)
        child = _gen_size_keeping(rng, Tp, depth - 1, f)
        return {"t": "patchwise", "patch": p, "child": child, "in": Ts}, t_img("tensor", Ts["c"], Ts["h"], Ts["w"])

    if kind == "semseg_seq":
        n = rng.choice([2, 3, 4])
        members, cur = [], Ts
        for _ in range(n):
            sub, out1 = gen_composition(rng, cur, rng.randint(0, max(0, depth - 1)), flags, top=False)
            members.append(sub)
            cur = out1
            if cur["kind"] == "semseg_stack":
                break
        return {"t": "semseg_seq", "members": members, "in": Ts}, cur
    raise ValueError(kind)


MAX_PATCHES = 24  # the member of a PatchwiseTransform is called once per patch: bounds the cost of a case


def _patch_sizes(T):
    return [d for d in _divisors(math.gcd(T["h"], T["w"])) if d <= 16 and (T["h"] // d) * (T["w"] // d) <= MAX_PATCHES]


def _gen_preserving(rng, T, depth, flags):
    """subtree whose output type equals its input type (needed below random-apply: skip and apply must agree)"""
    for _ in range(12):
        node, outT = gen_composition(rng, T, depth, flags, top=False)
        if same_type(outT, T):
            return node, outT
    o = gen_leaf(rng, T, flags, want_stochastic=True)
    return o if o is not None else _fallback_leaf(rng, T)


def _gen_size_keeping(rng, T, depth, flags):
    """subtree that keeps (c, h, w) (kind may turn into PIL: PatchwiseTransform converts back) - for patch members"""
    for _ in range(12):
        node, outT = gen_composition(rng, T, depth, flags, top=False)
        if is_img(outT) and not outT.get("multi") and (outT["c"], outT["h"], outT["w"]) == (T["c"], T["h"], T["w"]):
            return node
    o = gen_leaf(rng, T, dict(flags, preserve=True), want_stochastic=True)
    return (o if o is not None else _fallback_leaf(rng, T))[0]


def random_input_type(rng, domain=None):
    domain = domain or rng.choice(["pil", "tensor", "tensor", "tensor1", "patches", "semseg", "pil"])
    if domain == "pil":
        return t_img("pil", 3, *_rand_hw(rng, 8, 40, mult=rng.choice([1, 4, 8])))
    if domain == "tensor":
        return t_img("tensor", 3, *_rand_hw(rng, 8, 40, mult=rng.choice([1, 4, 8])))
    if domain == "tensor1":
        return t_img("tensor", 1, *_rand_hw(rng, 8, 48, mult=rng.choice([1, 4, 8])))
    if domain == "patches":
        return _patch_types(rng)[rng.randrange(2)]
    if domain == "semseg":
        return rng.choice(_semseg_types(rng) + _semseg_types_even(rng))
    raise ValueError(domain)


# ------------------------------------------------------------------------------------------------- discovery
_PACKAGES = ("kappadata.transforms", "kappadata.common.transforms")


def discover_stochastic_classes():
    """walk the transform packages -> (sorted ["module:Class"], {module: import error}).

    A class counts as RNG-relevant if it derives from KDStochasticTransform, or overrides set_rng / is_deterministic
    below KDTransform (containers, pipelines), or takes `transform(s)` in its constructor."""
    from kappadata.transforms.base.kd_stochastic_transform import KDStochasticTransform
    from kappadata.transforms.base.kd_transform import KDTransform
    found, bad = set(), {}
    for pkgname in _PACKAGES:
        pkg = importlib.import_module(pkgname)
        for m in pkgutil.walk_packages(pkg.__path__, pkg.__name__ + "."):
            try:
                mod = importlib.import_module(m.name)
            except Exception as e:  # noqa: BLE001 - reported in the evidence
                bad[m.name] = f"{type(e).__name__}: {e}"
                continue
            for n, c in vars(mod).items():
                if not (inspect.isclass(c) and c.__module__ == mod.__name__ and issubclass(c, KDTransform)):
                    continue
                sto = issubclass(c, KDStochasticTransform)
                ov = any(("set_rng" in vars(k) or "is_deterministic" in vars(k)) for k in c.__mro__ if k not in (KDTransform, object))
                try:
                    sig = [p for p in inspect.signature(c.__init__).parameters if p in ("transform", "transforms")]
                except (TypeError, ValueError):
                    sig = []
                if sto or ov or sig:
                    found.add(f"{c.__module__}:{n}")
    return sorted(found), bad


def covered_classes():
    return {r.cls_path for r in RECIPES.values()} | set(CONTAINER_CLASSES.values())


def uncovered_classes():
    found, _ = discover_stochastic_classes()
    return sorted(set(found) - covered_classes() - ABSTRACT)


# ------------------------------------------------------------------------------------------------- census
def generator_census(obj, max_nodes=2000):
    """bounded walk over __dict__ / list / tuple / dict members -> [(path, np.random.Generator)] (diagnostics only)"""
    out, seen, stack = [], set(), [("", obj)]
    n = 0
    while stack and n < max_nodes:
        path, o = stack.pop()
        n += 1
        if id(o) in seen:
            continue
        seen.add(id(o))
        if isinstance(o, np.random.Generator):
            out.append((path, o))
            continue
        if isinstance(o, (str, bytes, int, float, bool, type(None), torch.Tensor, np.ndarray, Image.Image)):
            continue
        if isinstance(o, (list, tuple)):
            for i, v in enumerate(o):
                stack.append((f"{path}[{i}]", v))
        elif isinstance(o, dict):
            for k, v in o.items():
                stack.append((f"{path}[{k!r}]", v))
        elif hasattr(o, "__dict__") and not inspect.isclass(o) and not inspect.isroutine(o) and not inspect.ismodule(o):
            mod = type(o).__module__ or ""
            if mod.startswith(("kappadata", "kdv", "tests_util", "__main__")):
                for k, v in vars(o).items():
                    if inspect.ismethod(v):
                        continue
                    stack.append((f"{path}.{k}", v))
    out.sort(key=lambda pv: pv[0])
    return out


def generator_state(g):
    st = g.bit_generator.state
    return repr(st)
