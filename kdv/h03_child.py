"""C03 cross-interpreter clause, child side: rebuild a batch of seeded wrappers in a fresh interpreter (own PYTHONHASHSEED, own
process-global RNG states) and print the selected leaf indices as one JSON line.

usage: python -m kdv.h03_child < {"items": [ {kind, layout, seed, params}, ... ]}     (started by kdv.c03; not a check of its own)
"""
from __future__ import annotations

import json
import os
import sys

MARK = "KDV03RESULT "


def main():
    os.environ.setdefault("OMP_NUM_THREADS", "1")
    sys.dont_write_bytecode = True
    import warnings
    warnings.filterwarnings("ignore")
    from kdv import core
    if str(core.REPO) != "/repo":
        sys.path.insert(0, str(core.REPO))
    import torch
    torch.set_num_threads(1)
    import kappadata
    from pathlib import Path
    kd = str(Path(kappadata.__file__).resolve())
    if not kd.startswith(str(core.REPO.resolve())):
        print(MARK + json.dumps({"fatal": f"kappadata imported from {kd}, expected under {core.REPO}"}))
        return 0
    from kdv import c03
    req = json.loads(sys.stdin.read())
    out = []
    for item in req["items"]:
        try:
            out.append({"ids": c03.plain_selection(item)})
        except Exception as e:
            out.append({"error": f"{type(e).__name__}: {e}"})
    print(MARK + json.dumps({"hashseed": os.environ.get("PYTHONHASHSEED"), "results": out}))
    return 0


if __name__ == "__main__":
    sys.exit(main())
