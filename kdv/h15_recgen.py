"""C15 helpers: recording / answering numpy Generator, observation of one transform call, range signatures.

A *range signature* is what a transform reveals at its API boundary about the parameter ranges it samples from:
  * the arguments of every draw it makes on an injected generator (``uniform(lo, hi)``, ``normal(loc, scale)``, ...),
  * the numeric parameters it writes to ``ctx`` when the generator answers with the low / the high end of every range,
  * the thresholds of its scalar ``rng.random() < p`` gates, recovered by bisection with a constant-answer generator,
  * recipe specific decoders that read a parameter out of the returned value.
Nothing here reads an attribute of the object under test by name.
"""
from __future__ import annotations

import copy
import dataclasses
import math

import numpy as np
import torch

CTX_SENTINEL = -1.0              # what the transforms write to ctx for "parameter not sampled" (never a legal parameter value)
BIG = 1e9                       # "far out" answer for unbounded distributions, in units of the requested scale
ONE_MINUS = 1.0 - 2.0 ** -53    # largest double below 1 (the high end of random())


def _rebuild(cls, bitgen, state):
    o = cls(bitgen)
    o.__dict__.update(state)
    return o


def _f(v):
    """bounds as plain floats (or tuples of floats for array-valued bounds)"""
    if v is None:
        return None
    a = np.asarray(v)
    if a.ndim == 0:
        return float(a)
    return tuple(float(x) for x in a.ravel()[:8])


class RecGen(np.random.Generator):
    """numpy Generator that records (method, bounds) of every draw and can answer with an end of the requested range.

    u    : "real" -> real draws | "lo" / "hi" -> the low / high end of the requested range
    gate : None   -> scalar ``random()`` answered according to `u` | float -> scalar ``random()`` always returns it
    choice_hook(a, size, replace) -> answer for ``choice`` or NotImplemented
    """

    def __init__(self, bitgen, u="real", gate=None, choice_hook=None):
        super().__init__(bitgen)
        self.u = u
        self.gate = gate
        self.choice_hook = choice_hook
        self.log = []

    def __reduce__(self):
        return (_rebuild, (type(self), self.bit_generator, dict(self.__dict__)))

    # ---- helpers
    def _end(self, lo, hi, size, dtype=float):
        v = lo if self.u == "lo" else hi
        if size is None:
            a = np.asarray(v)
            if a.ndim == 0:   # numpy generators return python scalars for scalar requests
                return a.astype(dtype).item()
            return a.astype(dtype)
        return np.broadcast_to(np.asarray(v, dtype=dtype), size if isinstance(size, tuple) else (size,) if np.isscalar(size) else tuple(size)).copy()

    # ---- draws
    def random(self, size=None, dtype=np.float64, out=None):
        if size is None and out is None:
            self.log.append(("random",))
            if self.gate is not None:
                return float(self.gate)
            if self.u == "real":
                return super().random()
            return 0.0 if self.u == "lo" else ONE_MINUS
        self.log.append(("random_sized",))
        if self.u == "real":
            return super().random(size=size, dtype=dtype, out=out)
        return self._end(0.0, ONE_MINUS, size, dtype=dtype)

    def uniform(self, low=0.0, high=1.0, size=None):
        self.log.append(("uniform", _f(low), _f(high)))
        if self.u == "real":
            return super().uniform(low, high, size)
        return self._end(low, high, size)

    def normal(self, loc=0.0, scale=1.0, size=None):
        self.log.append(("normal", _f(loc), _f(scale)))
        if self.u == "real":
            return super().normal(loc, scale, size)
        loc_a, sc_a = np.asarray(loc, dtype=float), np.asarray(scale, dtype=float)
        return self._end(loc_a - BIG * sc_a, loc_a + BIG * sc_a, size)

    def standard_normal(self, size=None, dtype=np.float64, out=None):
        self.log.append(("normal", 0.0, 1.0))
        if self.u == "real":
            return super().standard_normal(size=size, dtype=dtype, out=out)
        return self._end(-BIG, BIG, size, dtype=dtype)

    def integers(self, low, high=None, size=None, dtype=np.int64, endpoint=False):
        lo, hi = (0, low) if high is None else (low, high)
        top = np.asarray(hi) if endpoint else np.asarray(hi) - 1
        self.log.append(("integers", _f(lo), _f(top)))
        if self.u == "real":
            return super().integers(low, high, size=size, dtype=dtype, endpoint=endpoint)
        return self._end(lo, top, size, dtype=dtype)

    def choice(self, a, size=None, replace=True, p=None, axis=0, shuffle=True):
        n = int(a) if np.ndim(a) == 0 and not callable(a) and isinstance(a, (int, np.integer)) else len(a)
        self.log.append(("choice", n, None if size is None else int(np.prod(size)), bool(replace)))
        if self.choice_hook is not None:
            r = self.choice_hook(a, size, replace)
            if r is not NotImplemented:
                return r
        if self.u == "real":
            return super().choice(a, size=size, replace=replace, p=p, axis=axis, shuffle=shuffle)
        # deterministic pick that is the same for "lo" and "hi" (a choice has no range to collapse)
        k = 1 if size is None else int(np.prod(size))
        idx = [0] * k if replace else list(range(k))
        if isinstance(a, (int, np.integer)):
            picked = np.asarray(idx)
        else:
            picked = np.empty(k, dtype=object)
            for j, i in enumerate(idx):
                picked[j] = a[i]
            if isinstance(a, np.ndarray):
                picked = picked.astype(a.dtype)
        if size is None:
            return picked[0]
        return picked.reshape(size)

    def permutation(self, x, axis=0):
        n = int(x) if isinstance(x, (int, np.integer)) else len(x)
        self.log.append(("permutation", n))
        if self.u == "real":
            return super().permutation(x, axis=axis)
        return np.arange(x) if isinstance(x, (int, np.integer)) else np.array(x, copy=True)

    def shuffle(self, x, axis=0):
        self.log.append(("shuffle", len(x)))
        if self.u == "real":
            return super().shuffle(x, axis=axis)
        return None

    def beta(self, a, b, size=None):
        self.log.append(("beta", _f(a), _f(b)))
        if self.u == "real":
            return super().beta(a, b, size)
        return self._end(0.0, ONE_MINUS, size)

    def triangular(self, left, mode, right, size=None):
        self.log.append(("uniform", _f(left), _f(right)))
        if self.u == "real":
            return super().triangular(left, mode, right, size)
        return self._end(left, right, size)


# ------------------------------------------------------------------------------------------------ injection
from torch.utils.data import Dataset as _Dataset  # noqa: E402


def _is_kd_transform(o):
    from kappadata.transforms.base.kd_transform import KDTransform
    return isinstance(o, KDTransform)


def reachable_transforms(root, limit=200):
    """KD transforms reachable from `root` through instance dictionaries / lists / tuples / dicts (no attribute names
    are used). Only used to hand the *public* set_rng of every nested transform the harness generator and, for
    diagnostics, to find which member of a composition is responsible."""
    out, seen, stack = [], set(), [root]
    while stack and len(seen) < limit:
        o = stack.pop()
        if id(o) in seen:
            continue
        seen.add(id(o))
        if _is_kd_transform(o):
            out.append(o)
            children = list(vars(o).values())
        elif isinstance(o, _Dataset) or (dataclasses.is_dataclass(o) and not isinstance(o, type)):
            children = list(vars(o).values())
        elif isinstance(o, (list, tuple)):
            children = list(o)
        elif isinstance(o, dict):
            children = list(o.values())
        else:
            continue
        for c in children:
            if _is_kd_transform(c) or isinstance(c, (list, tuple, dict, _Dataset)) or (dataclasses.is_dataclass(c) and not isinstance(c, type)):
                stack.append(c)
    return out


def inject(t, gen):
    """give `gen` to `t` and to every transform nested in it, through the public set_rng"""
    n = 0
    if hasattr(t, "inject_rng"):          # harness adapters (MagnitudeSampler)
        t.inject_rng(gen)
        return 1
    for o in reachable_transforms(t):
        try:
            o.set_rng(gen)
            n += 1
        except NameError:
            # KDRandomApply.set_rng is broken on the current tree (C07's concern); such members are not used here
            pass
    return n


# ------------------------------------------------------------------------------------------------ observation
def clone_input(x):
    if torch.is_tensor(x):
        return x.clone()
    if isinstance(x, np.ndarray):
        return x.copy()
    if hasattr(x, "copy"):
        return x.copy()
    return copy.deepcopy(x)


def out_fingerprint(v):
    if torch.is_tensor(v):
        return ("tensor", str(v.dtype), tuple(v.shape), v.detach().contiguous().numpy().tobytes())
    if isinstance(v, np.ndarray):
        return ("ndarray", str(v.dtype), v.shape, v.tobytes())
    if isinstance(v, (list, tuple)):
        return tuple(out_fingerprint(x) for x in v)
    if hasattr(v, "tobytes") and hasattr(v, "mode"):
        return ("pil", v.mode, v.size, v.tobytes())
    if isinstance(v, float):
        return ("float", v.hex())
    return ("py", repr(v))


def flat_ctx(ctx):
    """numeric entries of a ctx dict -> {name: float}; lists are flattened with an index"""
    out = {}

    def put(k, v):
        if isinstance(v, bool):
            out[k] = float(v)
        elif isinstance(v, (int, float, np.integer, np.floating)):
            out[k] = float(v)
        elif torch.is_tensor(v) and v.numel() == 1:
            out[k] = float(v.item())
        elif isinstance(v, (list, tuple)) or (isinstance(v, np.ndarray) and v.ndim == 1) or (torch.is_tensor(v) and v.ndim == 1):
            for i, x in enumerate(list(v)[:16]):
                put(f"{k}[{i}]", x)
    for k in sorted(ctx, key=str):
        put(str(k), ctx[k])
    return out


class Obs:
    __slots__ = ("draws", "ctx", "out")

    def __init__(self, draws, ctx, out):
        self.draws, self.ctx, self.out = draws, ctx, out

    def fingerprint(self, with_gate_draws=True):
        d = self.draws if with_gate_draws else [x for x in self.draws if x != ("random",)]
        return (tuple(d), tuple(sorted(flat_ctx(self.ctx).items())), tuple(sorted((str(k), repr(v)) for k, v in self.ctx.items()
                                                                                  if not isinstance(v, (int, float, list, tuple)))),
                out_fingerprint(self.out))


def observe(t, x, u, gate=None, seed=0, choice_hook=None):
    g = RecGen(np.random.PCG64(seed), u=u, gate=gate, choice_hook=choice_hook)
    inject(t, g)
    ctx = {}
    if choice_hook is not None and hasattr(choice_hook, "drain"):
        choice_hook.drain()
    out = t(clone_input(x), ctx)
    if choice_hook is not None and hasattr(choice_hook, "drain"):
        ctx.update(choice_hook.drain())   # what a probe operation was called with counts as a reported parameter
    return Obs(g.log, ctx, out)


# ------------------------------------------------------------------------------------------------ signatures
class Sig:
    """vals: name -> float | ranges: [(name_lo, name_hi)] | spreads: [name] | gates: sorted thresholds (or None = not
    probed) | shape: structure of the draw sequences (methods and non-range arguments)"""

    def __init__(self):
        self.vals = {}
        self.ranges = []
        self.spreads = []
        self.gates = None
        self.shape = []

    def as_json(self, cap=40):
        items = sorted(self.vals.items())
        return {"vals": dict(items[:cap]), "gates": self.gates, "n_vals": len(items)}


def _put_bound(sig, name, v):
    if isinstance(v, tuple):
        for i, x in enumerate(v):
            sig.vals[f"{name}[{i}]"] = x
        return [f"{name}[{i}]" for i in range(len(v))]
    sig.vals[name] = v
    return [name]


def sig_from_obs(sig, tag, obs):
    for i, d in enumerate(obs.draws):
        m = d[0]
        base = f"{tag}.d{i}.{m}"
        if m in ("uniform", "integers"):
            lo = _put_bound(sig, base + ".lo", d[1])
            hi = _put_bound(sig, base + ".hi", d[2])
            sig.ranges.extend(zip(lo, hi))
            sig.shape.append((tag, i, m))
        elif m == "normal":
            _put_bound(sig, base + ".loc", d[1])
            sig.spreads.extend(_put_bound(sig, base + ".scale", d[2]))
            sig.shape.append((tag, i, m))
        elif m == "beta":
            _put_bound(sig, base + ".a", d[1])
            _put_bound(sig, base + ".b", d[2])
            sig.shape.append((tag, i, m))
        else:
            sig.shape.append((tag, i) + tuple(d))
    for k, v in flat_ctx(obs.ctx).items():
        sig.vals[f"{tag}.ctx.{k}"] = v


def find_gates(probe, iters=80, max_gates=6):
    """thresholds c* in (0, 1] at which the observation of a constant-answer generator changes.

    probe(c) -> hashable fingerprint of the call when every scalar rng.random() returns c. The observation is piecewise
    constant in c; every breakpoint is the threshold of one `rng.random() < p` comparison. Returns the sorted list."""
    cache = {}

    def P(c):
        if c not in cache:
            cache[c] = probe(c)
        return cache[c]

    out = []

    def rec(a, b, depth):
        if len(out) >= max_gates or P(a) == P(b):
            return
        lo, hi = a, b
        # isolate the lowest breakpoint in (a, b]
        for _ in range(iters):
            mid = (lo + hi) / 2.0
            if mid <= lo or mid >= hi:
                break
            if P(mid) == P(a):
                lo = mid
            else:
                hi = mid
        out.append(hi)
        # continue right of the breakpoint just found
        nxt = hi + max(4 * (hi - lo), 2.0 ** -40)
        if nxt < b:
            rec(nxt, b, depth + 1)
    rec(0.0, 1.0, 0)
    return sorted(out)


def bisect_value(pred, lo, hi, iters=60):
    """largest v in [lo, hi] with pred(v) False ... smallest with pred True; pred monotone False->True. Returns the
    boundary (None if pred is constant on the interval)."""
    if pred(lo) == pred(hi):
        return None
    a, b = lo, hi
    fa = pred(a)
    for _ in range(iters):
        mid = (a + b) / 2.0
        if mid <= a or mid >= b:
            break
        if pred(mid) == fa:
            a = mid
        else:
            b = mid
    return b


def signature(t, x, gates=True, choice_hook=None, extra=None, seed=0):
    """range signature of `t` on workload `x` (see module docstring)"""
    sig = Sig()
    for tag in ("lo", "hi"):
        o = observe(t, x, tag, gate=0.0, seed=seed, choice_hook=choice_hook)
        sig_from_obs(sig, tag, o)
    # a ctx parameter seen at the low and at the high answer spans a range as well
    for k in list(sig.vals):
        if k.startswith("lo.ctx."):
            kh = "hi" + k[2:]
            if kh in sig.vals:
                sig.ranges.append((k, kh))
    if gates:
        sig.gates = find_gates(lambda c: observe(t, x, "lo", gate=c, seed=seed, choice_hook=choice_hook).fingerprint(with_gate_draws=False))
    if extra is not None:
        for name, v in extra(t).items():
            if isinstance(v, tuple):
                sig.vals[name + ".lo"], sig.vals[name + ".hi"] = v
                sig.ranges.append((name + ".lo", name + ".hi"))
            elif v is not None:
                sig.vals[name] = v
    return sig


def close(a, b, tol):
    if a == b:
        return True
    if math.isnan(a) or math.isnan(b):
        return math.isnan(a) and math.isnan(b)
    return abs(a - b) <= tol * (1.0 + max(abs(a), abs(b)))


def sig_diff(a, b, tol):
    """-> list of human readable differences (empty = equal)"""
    out = []
    if a.shape != b.shape:
        out.append(f"draw structure differs: {[s for s in a.shape if s not in b.shape][:4]} vs {[s for s in b.shape if s not in a.shape][:4]}")
    for k in sorted(set(a.vals) | set(b.vals)):
        if k not in a.vals or k not in b.vals:
            out.append(f"{k}: {a.vals.get(k, 'absent')} vs {b.vals.get(k, 'absent')}")
        elif not close(a.vals[k], b.vals[k], tol):
            out.append(f"{k}: {a.vals[k]!r} vs {b.vals[k]!r}")
    if a.gates is not None and b.gates is not None:
        if len(a.gates) != len(b.gates) or any(not close(x, y, max(tol, 1e-11)) for x, y in zip(a.gates, b.gates)):
            out.append(f"gate thresholds: {a.gates} vs {b.gates}")
    return out


def not_collapsed(sig, tol, skip=()):
    out = []
    for lo, hi in sig.ranges:
        if any(s in lo for s in skip):
            continue
        if not close(sig.vals[lo], sig.vals[hi], tol):
            out.append(f"{lo[:-3] if lo.endswith('.lo') else lo}: [{sig.vals[lo]!r}, {sig.vals[hi]!r}]")
    for s in sig.spreads:
        if abs(sig.vals[s]) > tol:
            out.append(f"{s}: {sig.vals[s]!r}")
    return out


def not_between(sa, sb, sc, tol, single_gate=False):
    """entries of sb that do not lie between their values in sa and sc (only entries present in all three).

    Draw-position keyed entries are only compared when the three calls had the same draw structure (otherwise position i
    may be a different draw). Gate thresholds are only compared for a subject that consists of ONE transform with at most
    one gate (`single_gate`): in a composition the list of *observable* gates can differ between factors (a gate whose
    effect is hidden at one factor, e.g. by the far-out answers of an additive-noise member, or whose threshold is p*0),
    so the i-th observable gate is not the same gate at every factor; the members' gates are judged on the member
    subjects. A gate that is not observable at some factor is unknown there (never applied and applied-as-identity look
    the same), so the triple is not judged."""
    out = []
    same_structure = sa.shape == sb.shape == sc.shape
    for k in sorted(set(sa.vals) & set(sb.vals) & set(sc.vals)):
        if not same_structure and ".ctx." not in k and not k.startswith("decoded."):
            continue
        a, b, c = sa.vals[k], sb.vals[k], sc.vals[k]
        if math.isnan(a) or math.isnan(b) or math.isnan(c):
            continue
        if ".ctx." in k and CTX_SENTINEL in (a, b, c):
            continue   # "not sampled" marker of the library's ctx reporting, not a parameter value
        lo, hi = min(a, c), max(a, c)
        slack = tol * (1.0 + max(abs(a), abs(b), abs(c)))
        if not (lo - slack <= b <= hi + slack):
            out.append(f"{k}: {b!r} not between {a!r} and {c!r}")
    if single_gate and all(s.gates is not None and len(s.gates) == 1 for s in (sa, sb, sc)):
        a, b, c = sa.gates[0], sb.gates[0], sc.gates[0]
        if not (min(a, c) - 1e-10 <= b <= max(a, c) + 1e-10):
            out.append(f"gate threshold: {b!r} not between {a!r} and {c!r}")
    return out
