"""C08 — seeded sample wrappers make sample i a pure function of (data, config, seed, i).

Observation point: `ModeWrapper(<stack with seeded sample wrappers>, mode)[i]`  (DESIGN §2/C08).

  reference     instance A of the stack, built under global seed g1: table R[i] = mw[i] requested once, in index order
  histories     the same instance afterwards: permuted order, immediate repeats (i, i), interleaved (i, j, i), negative index
                forms - the three process-global RNGs are re-seeded *differently* before every request
  2nd instance  instance B built under another global seed after extra global draws, asked in another order after a
                pre-history on other indices; list / slice request forms
  loaders       real `DataLoader(mw, batch_sampler=<shuffled, repeated indices in batches of varying size>, num_workers=k,
                worker_init_fn=mw.worker_init_fn)` for k in {0,1,2,3}: different index-to-worker assignments, worker processes
                seeded by torch from a perturbed global state
  judge         every observation of index i is bit-identical (harness.canon_value, recorded ctx included when requested) to
                R[i]                                                                      -> impure:<wrapper family>:<transform>
                stream probes (identical underlying samples, seeded layer adds element-wise continuous noise on every
                call): outputs of indices that reach the seeded layer with different indices are pairwise different;
                seeded mixup with p=1: no three indices share the mixing weight decoded from the label   -> same-stream:<wrapper>
                draw probes (the seeded layer wraps a transform that returns its raw draws: 6 rng.random() + 3 64-bit integers):
                the raw 64-bit draws of ANY view of indices reaching the seeded layer with different indices share < 2 values (multi-view: 1-3 recording configs)
                (a stream that is a shifted copy of a neighbour's shares most)                          -> streams-overlap:<wrapper>
                wrappers serving two items from one draw (x + semseg, x + class): item k of index i requested through the modes
                "<a>", "<b>", "<b> <a>", with index is bit-identical to the item in the fused mode "<a> <b>"   -> form-dependent:<wrapper>
                once per run / shard: the reference tables of one stack per wrapper family recomputed in two other
                interpreters (PYTHONHASHSEED=1 / 2) equal the table of the checking interpreter      -> interpreter-dependent:<wrapper>
                ... and equal the values the checking interpreter returns after other seeded wrappers of the same classes
                (other seeds) served the same indices first, tables taken in the opposite order  -> instance-history-dependent:<wrapper>
                decision probes: a wrapper's own fair random decision recorded in ctx is not constant over 32 indices -> same-decisions:<wrapper>
                reconfiguration history (30% of the stacks with transform / multi-view / semseg wrappers): the second instance is
                constructed with decoy transforms and gets the final ones through the public attributes; it must equal the directly
                constructed reference on every request                                  -> impure:after-reassigning-transform:<wrapper>
                an in-domain construction / request raising                                               -> *-crash / *-refused

A violating stack is reduced to the seeded layer (and, inside it, to the smallest sub-tree of its transform) that still
violates when it is the only layer over the root dataset; the mechanism key names that wrapper family and transform class.
"""
from __future__ import annotations

import contextlib
import functools
import hashlib
import json
import os
import random as pyrandom
import subprocess
import sys
import tempfile

import numpy as np
import torch

from . import core
from . import h07_recipes as H
from . import h08_stacks as S
from .harness import GlobalRngSentinel, StepBudget, call_real, canon_value, codes_of

LEVEL = "exploration"
RULE = ("stacks = [KDSubset | RepeatWrapper]? + seeded sample wrapper(s) + [KDSubset | RepeatWrapper]? under ModeWrapper modes "
        "(item alone, with index / class / a second item, fused 'x class' / 'x semseg', return_ctx on/off). Seeded layers: "
        "X/Y/Source/TargetTransformWrapper over random well-typed transform trees of kdv/h07_recipes.py (leaf, compose explicit / "
        "bare list / dict-kind, random-apply, patchwise, scheduled inactive / active, nested to depth 3; PIL, tensor 1/3 channels, "
        "patch tensors), two stacked transform wrappers (deterministic or seeded, list-valued views flowing upwards), "
        "KDMultiViewWrapper over every config form of its constructor (int, (n, None), dict(n_views), transform object, (n, t), "
        "[n, t], dict(n_views, transform), dict(transform), KDMultiViewConfig, (n, dict(kind)), bare list, plain callable), "
        "KDMixWrapper(seed) (mixup) below / above seeded transform wrappers (incl. a dedicated family reading a noise-adding XTransformWrapper above the mix wrapper through the fused accessor), SemsegTransformWrapper(seed) over semseg and "
        "image-only members, Byol / ImagenetMinaug (multi-view and x) / ImagenetNoaug / MUGS wrappers of kappadata.common; "
        "seeds: 0 (falsy) for >= 25% of the seeded layers of every wrapper kind, 1, 5, 2^31-1, 2^32-1, 2^32, 2^62 and random ones; dataset sizes 2..10. Plus stream probes: identical "
        "underlying samples + a noise transform in 12 container shapes inside each wrapper kind. distinct by full spec; trivial = "
        "no layer of the stack draws")
ASSUMPTIONS = [
    "the root dataset returns a fresh copy per load (several transforms and the mix wrapper write in place), as the repository's datasets do",
    "every layer of a driven stack that draws carries a seed (an unseeded stochastic wrapper legitimately breaks purity); seeds are "
    "non-negative and <= 2^62 (seed + index must fit a signed 64-bit integer when the index arrives as numpy int64 through a subset)",
    "the position of a KDScheduledTransform in its schedule is training progress, not randomness: active schedules use a batch size "
    "so large that every request falls into batch 0; stacks are sent into dataloader *worker processes* only if all their schedules "
    "are initialised and constant (a worker's schedule position depends on its rank), other stacks see num_workers=0 loaders only",
    "transforms that refuse strength scaling (KDRandomRotation, KDColorJitter - subject of C15) are not placed below an active schedule",
    "KDSubset / RepeatWrapper are not placed above KDMixWrapper / SemsegTransformWrapper (ModeWrapper refuses outer layers without the "
    "fused accessor); cutmix is not driven (not implemented, C11's refusal class)",
    "members of SemsegTransformWrapper are the five pair transforms it names plus image-only KDTransforms that keep the image size",
    "recorded ctx is part of the returned value when return_ctx=True",
    "stream-separation is judged only where the seeded layer's output is a continuous element-wise draw (dedicated noise probes; "
    "false-alarm bound per pair < 1e-100) and for the mixup weight (Beta(a, a), a >= 1: density <= 1.5, float32 label; three "
    "indices sharing one weight: < C(10,3) * (1.5 * 2^-23)^2 < 4e-12 per case); for crop / flip / colour pipelines (BYOL, Minaug, MUGS) "
    "whose observable outputs are discrete after rounding it is recorded as evidence (index-sensitive tables), never judged",
    "draw probes: two independent streams share one 53-bit draw prefix with probability < (12*54)^2 * 2^-53 < 5e-11 per case (up to 3 recording configs x 2 views x 9 draws per index); a verdict needs "
    "two shared values (< 1e-20)",
    "decision probes: MUGSMultiViewWrapper records its weak/strong choice for the global student views in ctx['is_weak_global_aug'] "
    "(probability 1/2 per index, documented in its source as rng.random() < 0.5); over a window of 32 indices served by 32 different "
    "per-index streams the vector is constant with probability 2^-31 < 5e-10 per case; if the key is absent the clause is not judged "
    "(counted as unobservable). The weak/strong choice of the local crops is not recorded anywhere and is not judged",
    "cross-interpreter / instance-history clause: the fresh child interpreters process the chosen specs in one start each (the first "
    "stack of every wrapper family is the first instance of its classes there); the checking interpreter computes the same tables in "
    "the opposite order after wrappers with seeds + 1000 served the same indices",
    "reconfiguration histories are driven for the families whose transforms are public attributes read at request time on the current "
    "tree (TransformWrapperBase.transform, KDMultiViewWrapper.transform_configs[k].transform, SemsegTransformWrapper.transforms): the "
    "second instance is constructed with decoy transforms, the final ones are assigned before the first request, and it must equal the "
    "directly constructed reference instance. MUGSMultiViewWrapper keeps its pipelines twice (attribute + list) and is not reconfigured; "
    "n_views of a multi-view config is not changed after construction",
    "a returned sample belongs to the caller: after comparing a history observation the harness overwrites the returned tensors in place "
    "(what an in-place normalisation of the consumer does); a later request must not be affected (the root dataset returns fresh copies)",
    "seed sensitivity (another seed gives another table) is evidence, never a verdict",
    "which ModeWrapper mode an item is requested through is not part of (data, config, seed, i): the same item of the same index must "
    "agree across modes (ctx is not requested in this comparison)",
    "a child interpreter that cannot be started / does not finish makes the run inconclusive, never violated",
    "a dataloader batch that does not arrive within 120 s makes the run inconclusive, never violated",
]
MONITORS = ["reference_tables", "history_observations_compared", "second_instance_observations_compared", "request_form_observations_compared",
            "global_rng_perturbations", "loader_runs", "loader_runs_in_worker_processes", "loader_samples_compared",
            "stream_pairs_compared", "draw_windows_compared", "decision_windows_checked", "mix_weights_decoded", "index_sensitive_tables", "request_mode_items_compared", "reconfigured_instances", "interpreter_tables_compared", "foreign_seed_wrappers_served_first"]

STEP_LIMIT = 3_000_000
WITNESSES_PER_KEY = 4
LOADER_TIMEOUT_S = 120
ZERO_SEED_QUOTA = 3
RECONF_NOTE = " whose wrappers were constructed with decoy transforms and then given the final transforms through their public attributes"


# ------------------------------------------------------------------------------------------------ generation
def _flags(run):
    return {"constructible": ()}


def _finish_spec(rng, st, loaders):
    g1 = rng.randrange(2 ** 31)
    g2 = rng.randrange(2 ** 31)
    if g2 == g1:
        g2 = (g1 + 1) % 2 ** 31
    st.update(g=[g1, g2], burn=rng.choice([0, 1, 7]), perturb=[rng.randrange(2 ** 31) for _ in range(4)], hist_seed=rng.randrange(2 ** 31))
    m = S.stack_len(st["n"], st["layers"])
    lo = []
    if loaders:
        safe = S.worker_safe(st["layers"])
        ks = [0, 1, 2, 3] if safe else [0]
        rng.shuffle(ks)
        for k in ks[:loaders]:
            lo.append({"workers": k, "shuffle": rng.randrange(2 ** 31), "on": rng.choice(["A", "B"]), "max_batch": rng.choice([1, 2, 3, 4]),
                       "repeats": rng.choice([0, 1, m])})
    st["loaders"] = lo
    if not any(S.stochastic_layer(l) for l in st["layers"] if l["w"] in S.SEEDED):
        st["_trivial"] = True
    return st


XPROC_HASHSEEDS = [1, 2]
XPROC_TIMEOUT_S = 900


def _gen_xproc(run, rng, flags):
    """one case per run / shard: a handful of seeded stacks (every wrapper family) whose reference tables are recomputed in two
    other interpreters started with different PYTHONHASHSEED values"""
    want = [("probe", "xtw", "x"), ("probe", "xtw", "y"), ("probe", "xtw", "source"), ("probe", "xtw", "target"), ("probe", "mv", ""),
            ("probe", "semseg", ""), ("probe", "mix", ""), ("stack", "xtw2", ""), ("stack", "mv", ""), ("stack", "mix", ""), ("stack", "semseg", ""),
            ("common", "minaug_x", ""), ("common", "minaug_mv", ""), ("common", "byol_mv", ""), ("common", "mugs_mv", ""), ("fused", "", "")]
    if not run.quick():
        want = want + [("stack", f, "") for f in ("xtw", "xtw", "xtw2", "mv", "mix", "semseg")] + [("probe", w, "") for w in ("xtw", "mv", "semseg")]
    specs = []
    for kind, w, item in want:
        for _ in range(60):
            if kind == "probe":
                st = S.gen_probe(rng)
                l = st["layers"][st["probe"]["layer"]]
                ok = st["probe"]["wrapper"] == w and (not item or l.get("item") == item)
            elif kind == "stack":
                st = S.gen_stack(rng, flags, family=w)
                ok = any(S.stochastic_layer(l) for l in st["layers"] if l["w"] in S.SEEDED)
            elif kind == "common":
                st = S.gen_stack(rng, flags, family="common")
                ok = any(l["w"] == w for l in st["layers"])
            else:
                st = S.gen_fused(rng, flags)
                ok = True
            if ok:
                st = _finish_spec(rng, st, 0)
                st.pop("_trivial", None)
                st["probe"] = None
                specs.append(st)
                break
    return {"xproc": specs, "hashseeds": list(XPROC_HASHSEEDS)}


def gen_cases(run):
    rng = run.rng
    flags = _flags(run)
    yield _gen_xproc(run, rng, flags)
    n_probe = run.n(50, 16 * 300)
    n_stack = run.n(108, 16 * 1000)
    n_common = run.n(8, 16 * 30)
    n_fused = run.n(10, 16 * 60)
    n_draws = run.n(20, 16 * 100)
    n_dec = run.n(2, 16 * 4)
    plan = ["probe"] * n_probe + ["stack"] * n_stack + ["common"] * n_common + ["fused"] * n_fused + ["draws"] * n_draws + ["decisions"] * n_dec
    rng.shuffle(plan)
    loader_share = 0.3
    zero = {}

    def zero_quota(st):
        """besides the 25% share of gen_seed: the first ZERO_SEED_QUOTA drawing layers of every (case kind, wrapper kind) get
        seed 0 deterministically, so that every family meets the falsy boundary seed in every run"""
        kind = "probe" if st.get("probe") else "stack"
        for l in st["layers"]:
            if l["w"] in S.SEEDED and l.get("seed") is not None and S.stochastic_layer(l):
                k = (kind, l["w"], l.get("item", ""))
                if zero.get(k, 0) < ZERO_SEED_QUOTA:
                    zero[k] = zero.get(k, 0) + 1
                    l["seed"] = 0

    for kind in plan:
        if kind == "probe":
            st = S.gen_probe(rng)
        elif kind == "common":
            st = S.gen_stack(rng, flags, family="common")
        elif kind == "fused":
            st = S.gen_fused(rng, flags)
        elif kind == "draws":
            st = S.gen_draw_probe(rng)
        elif kind == "decisions":
            st = S.gen_decision_probe(rng)
        else:
            st = S.gen_stack(rng, flags, family=rng.choice(["xtw", "xtw", "xtw", "xtw2", "mv", "mv", "mix", "semseg", "semseg"]))
        zero_quota(st)
        if any(l["w"] in S.RECONF and l.get("seed") is not None for l in st["layers"]) and rng.random() < 0.3:
            st["reconf"] = True
        loaders = rng.choice([1, 2, 2]) if rng.random() < loader_share else 0
        yield _finish_spec(rng, st, loaders)


# ------------------------------------------------------------------------------------------------ evaluation
def _seed_globals(seed):
    np.random.seed(seed % (2 ** 32))
    torch.default_generator.manual_seed(seed)
    pyrandom.seed(seed)


class _Collector:
    """stand-in for `run` handed to harness.call_real while a (reduced) stack is evaluated"""

    def __init__(self):
        self.found = []

    def violation(self, key, what, spec=None):
        self.found.append((key, what))

    def refusal(self, cls):  # no refusal classes are enumerated for C08
        raise AssertionError("unreachable")


def _codes(run):
    if getattr(run, "_c08_codes", None) is None:
        import sys
        mods = [m for n, m in list(sys.modules.items())
                if m is not None and (n.startswith("kappadata.transforms") or n.startswith("kappadata.common.transforms")
                                      or n.startswith("kappadata.wrappers.sample_wrappers") or n.startswith("kappadata.common.wrappers")
                                      or n in ("kappadata.utils.magnitude_sampler", "kappadata.utils.random", "kappadata.factory",
                                               "kappadata.wrappers.mode_wrapper", "kappadata.datasets.kd_subset"))]
        run._c08_codes = codes_of(*mods)
    return run._c08_codes


def _history(spec, m):
    """request sequences derived from the spec: (seqA on the reference instance, pre-history + seqB on the second instance, forms)"""
    r = pyrandom.Random(spec["hist_seed"])
    perm = list(range(m))
    r.shuffle(perm)
    seq_a = []
    for i in perm:
        seq_a.append(i)
        if r.random() < 0.4:
            seq_a.append(i)                       # immediate repeat
        if r.random() < 0.3:
            seq_a += [r.randrange(m), i]          # interleaved with another index
    seq_a = seq_a[:5 * m]
    if not any(a == b for a, b in zip(seq_a, seq_a[1:])):
        seq_a.append(seq_a[-1])                   # at least one immediate repeat in every history
    seq_a = [(i - m) if r.random() < 0.15 else i for i in seq_a]
    pre_b = [r.randrange(m) for _ in range(r.choice([0, 1, 3]))]
    seq_b = list(range(m - 1, -1, -1))
    if r.random() < 0.5:
        seq_b = seq_b + [seq_b[0]] + perm[:2]
    a, b = sorted((r.randrange(m + 1), r.randrange(m + 1)))
    forms = [("list", [perm[0], perm[-1], perm[0]]), ("slice", [a, b, r.choice([1, 1, 2])])]
    cap = spec.get("hist_cap")
    if cap:  # long index windows over expensive pipelines: a short history (the window is there for the across-index clause)
        seq_a, pre_b, seq_b = seq_a[:cap], pre_b[:1], seq_b[:cap]
        forms = [("list", [perm[0], perm[-1], perm[0]])]
    return seq_a, pre_b, seq_b, forms


def _batches(lo, m):
    r = pyrandom.Random(lo["shuffle"])
    idx = list(range(m)) + [r.randrange(m) for _ in range(lo["repeats"])]
    r.shuffle(idx)
    out, k = [], 0
    while k < len(idx):
        b = r.randint(1, lo["max_batch"])
        out.append(idx[k:k + b])
        k += b
    return out


def _worker_init(mw, spec):
    if S.has_scheduled(spec["layers"]):
        return functools.partial(mw.worker_init_fn, batch_size=S.HUGE_BATCH, updates=5)
    return mw.worker_init_fn


def _scramble(out):
    """what an in-place consumer does with a returned sample (normalise / augment the tensors it was handed): overwrite every
    returned tensor after it was compared. A wrapper that hands out the same tensor objects again is then visible."""
    if torch.is_tensor(out):
        try:
            out.copy_(-out - 1)
        except Exception:  # noqa: BLE001 - expanded views / non-writable tensors are left alone
            pass
    elif isinstance(out, (list, tuple)):
        for v in out:
            _scramble(v)
    elif isinstance(out, dict):
        for v in out.values():
            _scramble(v)


def _norm_idx(i, m):
    return i + m if i < 0 else i


def evaluate(spec, stats=None, loaders=True, light=False, codes=None):
    """-> None | finding {"kind", "what", ["exc"]}. No reporting; `stats` collects evidence counters.
    light: reduced evaluation used while a violating stack is being reduced (no evidence phases).
    codes: code objects for the logical step budget around the in-process phases (worker processes are forked outside of it;
    their termination is watched by the loader timeout)"""
    st = stats if stats is not None else {}
    col = _Collector()
    budget = (lambda what: StepBudget(STEP_LIMIT, codes, what=what)) if codes else (lambda what: contextlib.nullcontext())
    box = {}

    def bump(k, v=1):
        st[k] = st.get(k, 0) + v

    def crash(phase):
        key, what = col.found[-1]
        kind = key if not key.startswith("refused-in-domain") else f"{phase}-refused:{key.split(':', 1)[1]}"
        return {"kind": kind, "what": what, "exc": kind.split(":")[-1]}

    layers = spec["layers"]
    m = S.stack_len(spec["n"], layers)
    g1, g2 = spec["g"]
    pert = spec["perturb"]
    pcount = [0]

    def perturb():
        k = pcount[0]
        pcount[0] += 1
        _seed_globals(pert[k % len(pert)] + 31 * k)
        if k % 3 == 1:
            np.random.random(2)
            torch.rand(1)
        bump("global_rng_perturbations")

    def build(gseed, burn, tag):
        _seed_globals(gseed)
        if burn:
            np.random.random(burn)
        prog = {}
        reconf = bool(spec.get("reconf")) and tag == "B"
        if reconf:
            bump("reconfigured_instances")
        ok, mw = call_real(col, lambda: S.build_stack(spec, prog, reconf=reconf), crash_key="construct-crash",
                           what=f"constructing the stack (instance {tag}{', transforms assigned through the public attributes after construction' if reconf else ''})")
        if not ok:
            f = crash("construct")
            f["layer"] = prog.get("layer")
            return None, f
        return mw, None

    def get(mw, i, what):
        perturb()
        ok, out = call_real(col, lambda: mw[i], crash_key="getitem-crash", what=what)
        if not ok:
            return None, crash("getitem")
        return out, None

    def impure(obs, i, detail=""):
        return {"kind": "impure", "obs": obs, "index": i,
                "what": f"index {i}: the value observed {obs} differs from the reference table entry (instance A built under global seed {g1}, "
                        f"requested once in index order){detail}"}

    def inprocess():
        # ---- reference table
        A, f = build(g1, 0, "A")
        if f:
            return f
        raw, R = [], []
        for i in range(m):
            out, f = get(A, i, f"reference request mw[{i}]")
            if f:
                return f
            raw.append(out)
            R.append(canon_value(out))
        bump("reference_tables")
        if len(set(R)) > 1:
            bump("index_sensitive")
        box.update(A=A, R=R)

        # ---- access histories on the same instance
        seq_a, pre_b, seq_b, forms = _history(spec, m)
        prev = None
        for i in seq_a:
            out, f = get(A, i, f"request mw[{i}] (history on instance A)")
            if f:
                return f
            j = _norm_idx(i, m)
            bump("history_observations_compared")
            if canon_value(out) != R[j]:
                how = "on an immediate repeat" if prev == j else "on a later request in permuted order"
                return impure(f"{how} on the same instance (request mw[{i}]; the tensors returned by earlier history requests were overwritten in place "
                              f"by the harness after they had been compared, as an in-place consumer would)", j)
            prev = j
            _scramble(out)

        # ---- second instance, other global state, other order, other request forms
        B, f = build(g2, spec["burn"], "B")
        if f:
            return f
        box.update(B=B)
        for i in pre_b:
            out, f = get(B, i, f"request mw[{i}] (pre-history on instance B)")
            if f:
                return f
            bump("second_instance_observations_compared")
            if canon_value(out) != R[i]:
                return impure(f"on a second instance built under global seed {g2}{RECONF_NOTE if spec.get('reconf') else ''} (first requests {pre_b})", i)
        for i in seq_b:
            out, f = get(B, i, f"request mw[{i}] (instance B)")
            if f:
                return f
            bump("second_instance_observations_compared")
            if canon_value(out) != R[i]:
                return impure(f"on a second instance built under global seed {g2}{RECONF_NOTE if spec.get('reconf') else ''}, requested in the order {seq_b} after {pre_b}", i)
            _scramble(out)
        for kind, arg in forms:
            req = list(arg) if kind == "list" else slice(arg[0], arg[1], arg[2])
            idxs = list(arg) if kind == "list" else list(range(m))[req]
            perturb()
            ok, outs = call_real(col, lambda: B[req], crash_key="getitem-crash", what=f"request mw[{req}]")
            if not ok:
                return crash("getitem")
            if not isinstance(outs, list) or len(outs) != len(idxs):
                return {"kind": "request-form", "what": f"mw[{req}] returned {type(outs).__name__} for {len(idxs)} indices"}
            for i, out in zip(idxs, outs):
                bump("request_form_observations_compared")
                if canon_value(out) != R[i]:
                    return impure(f"through the {kind} request mw[{req}] on the second instance", i)

        # ---- stream separation (probes only)
        probe = spec.get("probe")
        if probe:
            f = _judge_streams(spec, probe, m, raw, R, bump)
            if f:
                return f

        # ---- request forms of wrappers that serve two items from one draw: item k of sample i is the same value through every mode
        fl = S.fused_layer(layers)
        if fl is not None:
            items = S.FORM_ITEMS[layers[fl]["w"]]
            full = " ".join(items)
            r = pyrandom.Random(spec["hist_seed"] + 1)
            alts = [items[0], items[1], f"{items[1]} {items[0]}", r.choice([f"index {items[1]}", f"{items[0]} index", f"{items[1]} index {items[0]}"])]
            tables = {}
            for mode in [full] + alts:
                _seed_globals(g2 + 17)
                ok, mwf = call_real(col, lambda: S.build_stack(dict(spec, mode=mode, return_ctx=False)), crash_key="construct-crash",
                                    what=f"constructing the stack under mode {mode!r}")
                if not ok:
                    return crash("construct")
                order = list(range(m))
                r.shuffle(order)
                comp = {}
                for i in order:
                    out, f = get(mwf, i, f"request mw[{i}] under mode {mode!r}")
                    if f:
                        return f
                    names = mode.split(" ")
                    vals = [out] if len(names) == 1 else list(out)
                    for nm, v in zip(names, vals):
                        if nm != "index":
                            comp[(nm, i)] = canon_value(v)
                tables[mode] = comp
            for mode in alts:
                for (nm, i), cv in sorted(tables[mode].items()):
                    bump("request_mode_items_compared")
                    if cv != tables[full][(nm, i)]:
                        return {"kind": "form-dependent", "layer": fl,
                                "what": f"index {i}: item '{nm}' requested through mode {mode!r} differs from the same item requested through mode {full!r} "
                                        f"(same stack, same seeds; every mode alone is repeatable): sample {i} is not one function of (data, config, seed, i)"}
        return None

    with budget("observing one stack in the main process"):
        f = inprocess()
    if f:
        return f

    # ---- real dataloaders (worker processes are forked outside the step budget)
    if loaders:
        for lo in spec.get("loaders", []):
            f = _loader_run(spec, lo, box["A"] if lo["on"] == "A" else box["B"], m, box["R"], bump, perturb)
            if f:
                return f

    # ---- evidence: does the seed matter?
    if not light:
        alt = dict(spec, layers=[dict(l, seed=l["seed"] + 1) if l.get("seed") is not None else l for l in layers])
        try:
            with budget("evidence table under another seed"):
                _seed_globals(g1)
                C = S.build_stack(alt)
                for i in range(m):
                    if canon_value(C[i]) != box["R"][i]:
                        bump("seed_sensitive")
                        break
        except Exception:  # noqa: BLE001 - evidence only
            pass
    return None



def _judge_streams(spec, probe, m, raw, R, bump):
    layers = spec["layers"]
    pos = probe["layer"]
    seen = [S.seen_index(spec["n"], layers, pos, j) for j in range(m)]
    wname = S.wrapper_class_name(layers[pos])
    if probe["rule"] == "decisions":
        # the wrapper's own random decision recorded in ctx (probability strictly between 0 and 1) over a window of indices
        key = probe["ctx_key"]
        vec = []
        for j in range(m):
            out = raw[j]
            ctx = out[1] if isinstance(out, tuple) and len(out) == 2 and isinstance(out[1], dict) else None
            if ctx is None or key not in ctx:
                bump("decision_windows_unobservable")
                return None
            vec.append(bool(ctx[key]))
        distinct = len(set(seen))
        if distinct < probe["window"]:
            return None
        bump("decision_windows_checked")
        bump(f"decision_values_seen[{key}]", len(set(vec)))
        if len(set(vec)) == 1:
            return {"kind": "same-decisions", "layer": pos,
                    "what": f"{wname}(seed={layers[pos]['seed']}): ctx[{key!r}] is {vec[0]} for all {m} indices of the window; a fair decision drawn from a "
                            f"stream of its own per index is constant over {distinct} indices with probability 2^-{distinct - 1} - the decisions of "
                            f"different indices come from the same stream"}
        return None
    if probe["rule"] == "draws":
        keys = [S.draw_keys(raw[j]) for j in range(m)]
        for j in range(m):
            if len(keys[j]) < S.REC_FLOATS + S.REC_INTS:
                return {"kind": "draws-shape", "what": f"index {j}: the recording transform's output {str(raw[j])[:200]} holds {len(keys[j])} draws"}
            for k in range(j):
                if seen[j] == seen[k]:
                    continue
                bump("draw_windows_compared")
                shared = set(keys[j]) & set(keys[k])
                if len(shared) >= 2:
                    return {"kind": "streams-overlap", "layer": pos,
                            "what": f"{wname}(seed={layers[pos]['seed']}) over a transform that returns its raw draws: indices {k} and {j} (the seeded layer is asked "
                                    f"for {seen[k]} and {seen[j]}) share {len(shared)} of their {len(keys[j])} raw 64-bit draws - the stream of one index is "
                                    f"a shifted copy of the other's, not a different stream"}
        return None
    if probe["rule"] == "pairwise":
        for j in range(m):
            for k in range(j):
                if seen[j] == seen[k]:
                    continue
                bump("stream_pairs_compared")
                if R[j] == R[k]:
                    return {"kind": "same-stream", "layer": pos,
                            "what": f"{wname}(seed={layers[pos]['seed']}) over identical underlying samples: indices {k} and {j} (the seeded layer is asked for "
                                    f"{seen[k]} and {seen[j]}) return bit-identical noisy outputs - they drew from the same stream "
                                    f"(noise probe '{probe['shape']}')"}
        return None
    # mix-triple: label = w * onehot(i) + (1 - w) * onehot(partner); the weight is observable when the partner is another sample
    weights = {}
    for j in range(m):
        y = raw[j]
        if not torch.is_tensor(y) or y.ndim != 1:
            return {"kind": "mix-label-shape", "what": f"label of index {j} is {type(y).__name__} {getattr(y, 'shape', None)}"}
        nz = [float(v) for v in y.tolist() if v != 0.0]
        if len(nz) != 2:
            continue
        bump("mix_weights_decoded")
        weights.setdefault(tuple(sorted(nz)), []).append(j)
    for wv, js in weights.items():
        if len(js) >= 3:
            return {"kind": "same-stream", "layer": pos,
                    "what": f"{wname}(seed={layers[pos]['seed']}, mixup_p=1): indices {js} all mixed with the same weight pair {wv} (float32, Beta({layers[pos]['mixup_alpha']}, "
                            f"{layers[pos]['mixup_alpha']}) draws) - they drew from the same stream"}
    return None


def _loader_run(spec, lo, mw, m, R, bump, perturb):
    from torch.utils.data import DataLoader
    batches = _batches(lo, m)
    k = lo["workers"]
    perturb()
    try:
        dl = DataLoader(mw, batch_sampler=batches, num_workers=k, worker_init_fn=_worker_init(mw, spec), collate_fn=S.identity_collate,
                        timeout=LOADER_TIMEOUT_S if k > 0 else 0)
        got = []
        for b in dl:
            got.append(b)
    except core.StepBudgetExceeded:
        raise
    except Exception as e:  # noqa: BLE001
        msg = f"{type(e).__name__}: {e}"
        if isinstance(e, RuntimeError) and ("timed out" in str(e) or "exited unexpectedly" in str(e) or "killed by signal" in str(e)):
            # wall clock / a worker process killed from outside is never a verdict
            raise core.Inconclusive(f"dataloader with {k} workers: {msg[:300]}")
        # exceptions raised inside a worker arrive re-raised with the original type and the worker traceback in the message
        name = type(e).__name__
        return {"kind": f"loader-crash:{name}", "exc": name, "obs": "loader",
                "what": f"DataLoader(num_workers={k}, worker_init_fn=ds.worker_init_fn) over batches {batches}: {msg[-1200:]}"}
    bump("loader_runs")
    if k > 0:
        bump("loader_runs_in_worker_processes")
    bump(f"loader_runs[workers={k}]")
    if len(got) != len(batches):
        return {"kind": "loader-batches", "what": f"{len(got)} batches arrived for {len(batches)} requested"}
    for bi, (idxs, outs) in enumerate(zip(batches, got)):
        if len(outs) != len(idxs):
            return {"kind": "loader-batches", "what": f"batch {bi}: {len(outs)} samples for indices {idxs}"}
        for i, out in zip(idxs, outs):
            bump("loader_samples_compared")
            if canon_value(out) != R[i]:
                f = {"kind": "impure", "obs": "loader", "index": i, "workers": k,
                     "what": f"index {i}: the sample delivered by DataLoader(num_workers={k}, worker_init_fn=ds.worker_init_fn) in batch {bi} "
                             f"{idxs} (worker {bi % k if k else 'none (main process)'}) differs from the reference table entry computed in the main process in index order"}
                return f
    return None


# ------------------------------------------------------------------------------------------------ reduction / naming
def _solo(spec, layer, T=None, **over):
    """the seeded layer alone over a root dataset of its input type (same seeds, same histories, small)"""
    T = dict(T if T is not None else layer["in"])
    if T.get("kind") in ("pil", "tensor", "semseg") and T.get("h") is None:
        T.update(h=21, w=30)
    T.pop("multi", None)
    data = dict(spec["data"], T=T)
    mode = {"xtw": layer.get("item", "x"), "mix": "x class", "semseg": "x semseg"}.get(layer["w"], "x")
    n = max(3, min(spec["n"], 5))
    if data.get("classes") is not None:
        data["classes"] = [i % max(1, data.get("n_classes") or 1) for i in range(n)]
    sub = dict(spec, n=n, data=data, layers=[dict(layer, **{"in": T})], mode=mode, return_ctx=spec.get("return_ctx", False), loaders=[], probe=None)
    sub.pop("_trivial", None)
    sub.update(over)
    return sub


def _children(node):
    if node["t"] in ("compose", "semseg_seq"):
        return [ch for ch in node["members"] if not (ch["t"] == "leaf" and not H.RECIPES[ch["recipe"]].kd)]
    if node["t"] in ("random_apply", "patchwise", "scheduled"):
        return [node["child"]]
    return []


def _fused(mode, layer):
    items = mode.split(" ")
    return (layer["w"] == "mix" and "x" in items and "class" in items) or (layer["w"] == "semseg" and "x" in items and "semseg" in items)


def _same_kind(f, g):
    return g is not None and g["kind"].split(":")[0] == f["kind"].split(":")[0]


def _reduce(spec, finding):
    """-> list of (reduced spec, finding, label). Every seeded layer is judged alone; inside a violating layer its transform
    tree is descended to the smallest sub-tree that still violates when it is handed to the same kind of wrapper."""
    out = []
    layers = spec["layers"]
    loader_only = finding.get("obs") == "loader"
    if finding["kind"] == "form-dependent":
        return [(spec, finding, S.wrapper_family(layers[finding["layer"]]))]
    if finding["kind"] == "same-decisions":
        return [(spec, finding, S.wrapper_class_name(layers[finding["layer"]]))]
    if finding["kind"] == "streams-overlap":
        return [(spec, finding, S.wrapper_family(layers[finding["layer"]]))]
    if finding["kind"] == "same-stream":
        l = layers[finding["layer"]]
        return [(spec, finding, S.wrapper_family(l))]
    if finding["kind"].startswith("construct") and isinstance(finding.get("layer"), int):
        l = layers[finding["layer"]]
        return [(spec, finding, S.wrapper_class_name(l))]
    if loader_only:
        seeded = [l for l in layers if l["w"] in S.SEEDED]
        lab = "+".join(sorted({S.wrapper_family(l) for l in seeded})) or "stack"
        return [(spec, finding, f"loader-only:{lab}")]

    def judge(sub):
        return evaluate(sub, loaders=False, light=True)

    if spec.get("reconf") and finding["kind"] == "impure" and not loader_only:
        plain = dict(spec, reconf=None, loaders=[], probe=None)
        plain.pop("_trivial", None)
        if judge(plain) is None:
            # holds when the second instance is constructed directly: the reconfiguration through the public attribute matters
            fams = "+".join(sorted({S.wrapper_family(l) for l in layers if l["w"] in S.RECONF and l.get("seed") is not None}))
            return [(spec, finding, f"after-reassigning-transform:{fams}")]

    def descend(layer, tree, mk, cur_spec, cur_finding):
        """mk(subtree) -> solo spec with `subtree` in place of `tree`"""
        hits = []
        for ch in _children(tree):
            sub = mk(ch)
            g = judge(sub)
            if _same_kind(finding, g):
                hits.append((ch, sub, g))
        for ch, sub, g in hits:
            descend(layer, ch, mk, sub, g)
        if not hits:
            out.append((cur_spec, cur_finding, f"{S.wrapper_family(layer)}:{S.node_label(tree)}"))

    T0 = H.t_img("tensor", 3, 8, 8)

    def simplest(layer):
        """the same wrapper (same seed) over the simplest seeded workload: one plain noise transform on a tensor image"""
        noise = S.probe_tree("leaf", T0)
        w = layer["w"]
        if w == "xtw":
            return _solo(spec, dict(layer, tree=noise), T=T0)
        if w == "mv":
            return _solo(spec, dict(layer, configs=[{"form": "tuple", "n": 2, "tree": noise}]), T=T0)
        if w == "semseg":
            return _solo(spec, dict(layer, members=[noise]), T=H.t_semseg("tensor", 8, 8))
        return None

    any_hit = False
    for layer in layers:
        if layer["w"] not in S.SEEDED or layer.get("seed") is None:
            continue
        solo = _solo(spec, layer)
        g = judge(solo)
        if not _same_kind(finding, g):
            continue
        any_hit = True
        w = layer["w"]
        simple = simplest(layer)
        if simple is not None:
            gs = judge(simple)
            if _same_kind(finding, gs):
                # the wrapper fails on the simplest seeded transform: the mechanism is the wrapper, not a particular transform
                out.append((simple, gs, S.wrapper_family(layer)))
                continue
        if w == "xtw":
            def mk(sub_tree, layer=layer):
                node = {k: v for k, v in sub_tree.items() if k not in ("implicit",)}
                return _solo(spec, dict(layer, tree=node), T=sub_tree["in"])
            descend(layer, layer["tree"], mk, solo, g)
        elif w == "mv":
            hit_cfg = False
            for c in layer["configs"]:
                if c.get("tree") is None:
                    continue
                one = _solo(spec, dict(layer, configs=[c]))
                g1 = judge(one)
                if not _same_kind(finding, g1):
                    continue
                hit_cfg = True

                def mk(sub_tree, layer=layer, c=c):
                    node = {k: v for k, v in sub_tree.items() if k not in ("implicit", "via")}
                    return _solo(spec, dict(layer, configs=[{"form": "tuple", "n": max(2, c.get("n", 1)), "tree": node}]), T=sub_tree["in"])
                descend(layer, c["tree"], mk, one, g1)
            if not hit_cfg:
                # no config violates alone (e.g. an unseeded view that only shows through a later view writing in place
                # into the shared sample): name the configs whose replacement by identity views makes the violation disappear
                needed = []
                for k, c in enumerate(layer["configs"]):
                    if c.get("tree") is None:
                        continue
                    others = [cc if kk != k else {"form": "tuple_none", "n": S.mv_views(c), "tree": None} for kk, cc in enumerate(layer["configs"])]
                    if not _same_kind(finding, judge(_solo(spec, dict(layer, configs=others)))):
                        needed.append(c)
                if len(needed) == 1:
                    out.append((solo, g, f"{S.wrapper_family(layer)}:{S.node_label(needed[0]['tree'])}"))
                else:
                    out.append((solo, g, S.wrapper_family(layer)))
        elif w == "semseg":
            hit_m = False
            for mnode in layer["members"]:
                one = _solo(spec, dict(layer, members=[mnode]))
                g1 = judge(one)
                if _same_kind(finding, g1):
                    hit_m = True
                    out.append((one, g1, f"{S.wrapper_family(layer)}:{S.node_label(mnode)}"))
            if not hit_m:
                out.append((solo, g, S.wrapper_family(layer)))
        else:
            out.append((solo, g, S.wrapper_class_name(layer)))
    if not any_hit:
        # no seeded layer violates alone: try adjacent pairs of seeded layers under the original mode (e.g. a transform wrapper
        # above a mix wrapper read through the fused accessor)
        seeded_pos = [i for i, l in enumerate(layers) if l["w"] in S.SEEDED]
        for a, b in zip(seeded_pos, seeded_pos[1:]):
            if b != a + 1:
                continue
            T = dict(layers[a]["in"])
            T.pop("multi", None)
            pair = dict(spec, data=dict(spec["data"], T=T), layers=[layers[a], layers[b]], loaders=[], probe=None)
            pair.pop("_trivial", None)
            g = judge(pair)
            if _same_kind(finding, g):
                out.append((pair, g, f"stack:{S.wrapper_family(layers[a])}+{S.wrapper_family(layers[b])}:mode={'fused' if _fused(spec['mode'], layers[a]) else 'plain'}"))
                any_hit = True
    if not any_hit:
        out.append((spec, finding, "stack"))
    return out


# ------------------------------------------------------------------------------------------------ case execution
def _table_digests_here(spec):
    return S.table_digests(spec)


def _run_xproc(run, case):
    """reference tables of (config, seed, i) from fresh child interpreters vs the values of the checking interpreter obtained
    *after* other seeded wrappers (same classes, other seeds) served the same indices, in another order"""
    specs = case["xproc"]

    def fam_set(sp):
        return sorted({S.wrapper_family(l) for l in sp["layers"] if l["w"] in S.SEEDED})

    # ---- children first started (they run while the parent works): each is a fresh interpreter, specs in the given order
    tmp = tempfile.mkdtemp(prefix="kdv_c08x_")
    spec_path = os.path.join(tmp, "specs.json")
    with open(spec_path, "w") as fh:
        json.dump(specs, fh)
    procs = []
    for hs in case["hashseeds"]:
        env = dict(os.environ, PYTHONHASHSEED=str(hs))
        outp = os.path.join(tmp, f"out{hs}.json")
        procs.append((hs, outp, subprocess.Popen([sys.executable, "-m", "kdv.h08_child", spec_path, outp], cwd=str(core.VERIF), env=env,
                                                  stdout=subprocess.PIPE, stderr=subprocess.STDOUT, text=True)))
    # ---- parent: other wrappers of the same classes with OTHER seeds serve every index first ...
    for sp in specs:
        other = dict(sp, layers=[dict(l, seed=l["seed"] + 1000) if l.get("seed") is not None else l for l in sp["layers"]])
        try:
            S.table_digests(other)
            run.count("foreign_seed_wrappers_served_first")
        except Exception:  # noqa: BLE001 - crashes are the business of the ordinary cases
            pass
    # ---- ... then the tables, in the opposite order of the children
    here = [None] * len(specs)
    for k in range(len(specs) - 1, -1, -1):
        col = _Collector()
        ok, d = call_real(col, lambda: _table_digests_here(specs[k]), crash_key="getitem-crash", what="reference table in the checking interpreter")
        here[k] = d if ok else None
    results = {}
    try:
        for hs, outp, p in procs:
            try:
                so, _ = p.communicate(timeout=XPROC_TIMEOUT_S)
            except subprocess.TimeoutExpired:
                p.kill()
                raise core.Inconclusive(f"child interpreter (PYTHONHASHSEED={hs}) did not finish within {XPROC_TIMEOUT_S}s")
            if p.returncode != 0 or not os.path.exists(outp):
                raise core.Inconclusive(f"child interpreter (PYTHONHASHSEED={hs}) failed (rc={p.returncode}): {so[-600:]}")
            results[hs] = json.load(open(outp))
    finally:
        import shutil
        shutil.rmtree(tmp, ignore_errors=True)
    run.count("child_interpreters", len(results))
    hss = list(results)

    # stacks with one seeded family first: a stack of several families is named after a member family that already differs alone
    order = sorted(range(len(specs)), key=lambda k: len(fam_set(specs[k])))
    differing = {"interpreter-dependent": set(), "instance-history-dependent": set()}
    for k in order:
        sp = specs[k]
        if here[k] is None:
            continue
        fs = fam_set(sp)
        run.cover("interpreter", "+".join(fs), "+".join(l["w"] for l in sp["layers"]))
        tabs = {hs: results[hs]["tables"][k] for hs in hss}
        one = {"xproc": [sp], "hashseeds": hss}

        def name(kind):
            d = differing[kind] & set(fs)
            return sorted(d)[0] if len(fs) > 1 and d else "+".join(fs)

        err = [(hs, t) for hs, t in tabs.items() if "error" in t]
        if err:
            hs, t = err[0]
            run.violation(f"interpreter-crash:{t['error'].split(':')[0]}:{'+'.join(fs)}",
                          f"{_brief(sp)}: the table computes in the checking interpreter but raises in a fresh interpreter (PYTHONHASHSEED={hs}): {t['error']}\n{t.get('tb', '')}", one)
            continue
        run.count("interpreter_tables_compared", len(tabs))
        run.count("interpreter_samples_compared", len(here[k]) * len(tabs))
        ref = tabs[hss[0]]["digests"]
        disagree = [hs for hs in hss[1:] if tabs[hs]["digests"] != ref]
        if disagree:
            if len(fs) == 1:
                differing["interpreter-dependent"].add(fs[0])
            bad = [i for i, (a, b) in enumerate(zip(ref, tabs[disagree[0]]["digests"])) if a != b]
            run.violation(f"interpreter-dependent:{name('interpreter-dependent')}",
                          f"{_brief(sp)} mode={sp['mode']!r}: the reference tables computed in two fresh interpreters started with PYTHONHASHSEED={hss[0]} and "
                          f"{disagree[0]} differ at indices {bad[:8]} - sample i depends on interpreter-private state (it would differ between spawned workers / ranks / runs)", one)
            continue
        if here[k] != ref:
            if len(fs) == 1:
                differing["instance-history-dependent"].add(fs[0])
            bad = [i for i, (a, b) in enumerate(zip(ref, here[k])) if a != b]
            run.violation(f"instance-history-dependent:{name('instance-history-dependent')}",
                          f"{_brief(sp)} mode={sp['mode']!r}: the values of (config, seed, i) computed in fresh interpreters (agreeing under PYTHONHASHSEED={hss}) differ at indices "
                          f"{bad[:8]} from the values the checking interpreter returns after other seeded wrappers of the same classes (seeds + 1000) served the same "
                          f"indices first - sample i depends on which other wrapper instances exist / were asked before, not only on (data, config, seed, i)", one)


def run_case(run, spec):
    if "xproc" in spec:
        return _run_xproc(run, spec)
    layers = spec["layers"]
    stats = {}
    finding = evaluate(spec, stats, loaders=True, codes=_codes(run))
    sens = bool(stats.pop("seed_sensitive", 0))
    idx_sens = bool(stats.pop("index_sensitive", 0))
    for k, v in stats.items():
        run.count(k, v)
    _cover(run, spec)
    if finding is None:
        run.count("cases_held")
        if sens:
            run.count("seed_sensitive_tables")
        if idx_sens:
            run.count("index_sensitive_tables")
        for l in layers:
            if l["w"] in S.SEEDED:
                _note(run, "wrappers_held", S.wrapper_class_name(l))
        if spec.get("loaders") and (len(layers) >= 2 or spec.get("probe")):
            run.sample({"stack": _brief(spec), "mode": spec["mode"], "size": S.stack_len(spec["n"], layers), "loader_workers": [lo["workers"] for lo in spec["loaders"]],
                        "probe": (spec.get("probe") or {}).get("shape"), "seed_sensitive": sens, "index_sensitive": idx_sens}, cap=6)
        return

    with StepBudget(STEP_LIMIT * 6, _codes(run), what="reducing a violating stack"):
        reduced = _reduce(spec, finding)
    for sub, f, label in reduced:
        key = f"{f['kind']}:{label}"
        sub = {k: v for k, v in sub.items() if k != "_trivial"}
        per_key = run.__dict__.setdefault("_c08_per_key", {})
        per_key[key] = per_key.get(key, 0) + 1
        if key in run.known or per_key[key] <= WITNESSES_PER_KEY:
            run.violation(key, f"{label}: {f['what']}\nreduced stack: {_brief(sub)} mode={sub['mode']!r}", sub)
        else:
            run.count(f"further_witnesses[{key}]")


def _cover(run, spec):
    layers = spec["layers"]
    shape = "+".join(l["w"] for l in layers)
    run.cover("stack", shape, spec["mode"], bool(spec.get("return_ctx")))
    run.cover("data", spec["data"]["T"]["kind"], bool(spec["data"].get("const")))
    for l in layers:
        if l.get("seed") is not None:
            run.cover("seed", "zero" if l["seed"] == 0 else "boundary" if l["seed"] in S.BOUNDARY_SEEDS else "random", l["w"])
            if l["seed"] == 0 and l["w"] in S.SEEDED and S.stochastic_layer(l):
                run.count(f"zero_seed_layers[{S.wrapper_family(l)}]")
        if l["w"] == "xtw":
            run.cover("xtw", l["item"], l["tree"]["t"], S.node_depth(l["tree"]), bool(l["tree"].get("implicit")), l["tree"].get("via", "obj"))
        elif l["w"] == "mv":
            for c in l["configs"]:
                run.cover("mv-config", c["form"], S.mv_views(c), c["tree"]["t"] if c.get("tree") else "identity")
        elif l["w"] == "semseg":
            for mnode in l["members"]:
                run.cover("semseg-member", S.node_label(mnode))
        elif l["w"] == "mix":
            run.cover("mix", l["mixup_p"], l["mixup_alpha"], spec["mode"])
        for t in S.layer_trees(l):
            for n in H.iter_nodes(t):
                if n["t"] == "leaf":
                    _note(run, "transform_classes_exercised", H.RECIPES[n["recipe"]].cls.__name__)
                elif n["t"] in H.CONTAINER_CLASSES:
                    _note(run, "transform_classes_exercised", H.CONTAINER_CLASSES[n["t"]].split(":")[1])
    if spec.get("reconf"):
        for l in layers:
            if l["w"] in S.RECONF and l.get("seed") is not None:
                run.cover("reconfigured", l["w"], l.get("item", ""))
    for lo in spec.get("loaders", []):
        run.cover("loader", lo["workers"], lo["max_batch"], lo["on"])
    if spec.get("probe"):
        run.cover("probe", spec["probe"]["wrapper"], spec["probe"]["shape"], shape)


def _brief_tree(node):
    t = node["t"]
    if t == "leaf":
        return H.RECIPES[node["recipe"]].cls.__name__
    if t in ("compose", "semseg_seq"):
        return ("List" if node.get("implicit") else "Compose") + "[" + ", ".join(_brief_tree(m) for m in node["members"]) + "]"
    if t == "random_apply":
        return f"RandomApply(p={node['p']}, {_brief_tree(node['child'])})"
    if t == "patchwise":
        return f"Patchwise({node['patch']}, {_brief_tree(node['child'])})"
    if t == "scheduled":
        return f"Scheduled({'active' if node.get('active') else 'inactive'}, {node.get('schedule')}, {_brief_tree(node['child'])})"
    return t


def _brief(spec):
    parts = [f"Root(n={spec['n']}, {spec['data']['T']['kind']}{', identical samples' if spec['data'].get('const') else ''})"]
    for l in spec["layers"]:
        w = l["w"]
        name = S.wrapper_class_name(l)
        if w == "xtw":
            parts.append(f"{name}({_brief_tree(l['tree'])}, seed={l.get('seed')})")
        elif w == "mv":
            cf = ", ".join(f"{c['form']}:{S.mv_views(c)}x{_brief_tree(c['tree']) if c.get('tree') else 'identity'}" for c in l["configs"])
            parts.append(f"{name}([{cf}], seed={l['seed']})")
        elif w == "semseg":
            parts.append(f"{name}([{', '.join(_brief_tree(x) for x in l['members'])}], seed={l['seed']})")
        elif w == "mix":
            parts.append(f"{name}(mixup_p={l['mixup_p']}, mixup_alpha={l['mixup_alpha']}, seed={l['seed']})")
        elif w == "subset":
            parts.append(f"KDSubset({l['indices']})")
        elif w == "repeat":
            parts.append(f"RepeatWrapper({l['repetitions']})")
        else:
            parts.append(f"{name}({', '.join(f'{k}={v}' for k, v in l.items() if k not in ('w', 'in'))})")
    return " -> ".join(parts)


def _note(run, key, val):
    lst = run.notes.setdefault(key, [])
    if val not in lst:
        lst.append(val)


def finalize_merged(run):
    for k in ("transform_classes_exercised", "wrappers_held"):
        run.notes[k] = sorted(run.notes.get(k, []))
