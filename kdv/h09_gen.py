"""Generators of C09 stack specs (see kdv/h09_stacks.py for the vocabulary).

gen_sim_stack(rng)    -> top node over *real* transforms (simulated workers, generator census)
gen_probe_stack(rng)  -> top node over *probe* trees (real DataLoader workers)

Constraints honoured (all of them are documented behaviour / own guards of the repository, see c09.ASSUMPTIONS):
  * wrappers are built without a seed;
  * a KDMultiViewWrapper / common multi-view wrapper is not placed directly on an XTransformWrapper (the wrapper asserts the
    transform below to be deterministic);
  * a stack that contains a wrapper with fused operations (KDMixWrapper, SemsegTransformWrapper) ends in a wrapper type
    that implements the requested getitem methods (ModeWrapper asserts that);
  * SemsegTransformWrapper members are the semseg transform classes it recognises, or size-preserving image transforms;
  * schedules are reached from the wrapper through compose members only.
"""
from __future__ import annotations

from . import h07_recipes as H
from .h09_stacks import has_sched, gen_tree

SEMSEG_MEMBER_RECIPES = ["semseg_random_crop", "semseg_random_horizontal_flip", "semseg_random_resize", "det_semseg_pad",
                         "det_semseg_resize"]
DATASET_LEVEL = ["subset", "shuffle", "repeat", "pass"]


def _dataset_level(rng, kind, child, n):
    """-> (node, new_len)"""
    if kind == "subset":
        m = rng.choice([1, max(1, n // 2), n, n + 2])
        return {"k": "subset", "indices": [rng.randrange(n) for _ in range(m)], "child": child}, m
    if kind == "shuffle":
        return {"k": "shuffle", "seed": rng.randrange(1000), "child": child}, n
    if kind == "repeat":
        return {"k": "repeat", "times": 2, "child": child}, 2 * n
    return {"k": "pass", "child": child}, n


def _img(T):
    return T["kind"] in ("pil", "tensor") and not T.get("multi")


def _fixed_tensor(T):
    return T["kind"] == "tensor" and not T.get("multi") and T.get("h") is not None and not T.get("alias")


def _gen_semseg_members(rng, T):
    members, cur = [], T
    n = rng.choice([1, 2, 3, 4])
    if cur["h"] is not None and rng.random() < 0.35:
        # an image-only member (applied to x alone): keeps the size so that x and the mask stay aligned
        Tx = H.t_img(cur["xkind"], 3, cur["h"], cur["w"])
        for _ in range(6):
            tree, outT = H.gen_composition(rng, Tx, rng.choice([0, 1, 2]), {"constructible": (), "preserve": True, "no_multi": True,
                                                                         "known_size": True, "no_pipeline": True})
            if H.same_type(outT, Tx) and not outT.get("alias") and not has_sched(tree) and H.has_stochastic_leaf(tree):
                members.append(tree)
                break
    for _ in range(n):
        name = rng.choice(SEMSEG_MEMBER_RECIPES + ["semseg_random_crop", "semseg_random_horizontal_flip", "semseg_random_resize"])
        if name == "semseg_random_resize" and cur["h"] is not None and (min(cur["h"], cur["w"]) < 4 or max(cur["h"], cur["w"]) > 4 * min(cur["h"], cur["w"])):
            continue     # degenerate geometry (a 1 x 39 strip is resized to height 0): subject of C14, not of the streams
        o = H.RECIPES[name].sample(rng, cur)
        if o is None:
            continue
        members.append({"t": "leaf", "recipe": name, "params": o[0], "in": dict(cur)})
        cur = o[1]
    if not any(m["t"] == "leaf" and H.RECIPES[m["recipe"]].stochastic for m in members):
        members.append({"t": "leaf", "recipe": "semseg_random_horizontal_flip", "params": {"p": 0.5}, "in": dict(cur)})
    return members, cur


def _gen_mv_configs(rng, T):
    configs = []
    for _ in range(rng.choice([1, 2, 2, 3])):
        if rng.random() < 0.12:
            configs.append({"n": rng.choice([1, 2]), "tree": None, "form": rng.choice(["int", "dict"])})
            continue
        tree, _ = gen_tree(rng, T, rng.choice([0, 1, 2, 2]))
        form = rng.choice(["config", "config", "tuple", "dict", "bare"])
        configs.append({"n": 1 if form == "bare" else rng.choice([1, 2, 3]), "tree": tree, "form": form})
    if all(c["tree"] is None for c in configs):
        tree, _ = gen_tree(rng, T, 1)
        configs.append({"n": 2, "tree": tree, "form": "config"})
    if rng.random() < 0.45:
        # a view whose transform is a plain callable (no KDTransform: nothing to re-seed), first / in the middle / last
        pos = rng.choice([0, 0, len(configs) // 2, len(configs), rng.randint(0, len(configs))])
        form = rng.choice(["config", "tuple", "dict", "bare"])
        configs.insert(pos, {"n": 1 if form == "bare" else rng.choice([1, 2]), "tree": None, "plain": rng.choice(["fn", "obj"]), "form": form})
    return configs


def _gen_common(rng):
    cls = rng.choice(["ImagenetMinaugMultiViewWrapper", "MUGSMultiViewWrapper", "ImagenetMinaugXTransformWrapper", "ByolMultiViewWrapper",
                      "ImagenetMinaugMultiViewWrapper", "MUGSMultiViewWrapper"])
    if cls == "ImagenetMinaugMultiViewWrapper":
        return cls, {"n_views": rng.choice([1, 2, 3]), "size": rng.choice([8, 16])}
    if cls == "MUGSMultiViewWrapper":
        return cls, {"global_size": 16, "local_size": 8, "num_local_crops": rng.choice([1, 2, 3])}
    if cls == "ImagenetMinaugXTransformWrapper":
        return cls, {"size": rng.choice([8, 16])}
    return cls, {}


def _new_rid(rng):
    return f"shared{rng.randrange(10 ** 9)}"


def gen_chain(rng, allow_fused=True, allow_collators=True, domain=None, base=None):
    """one root with 1..4 layers above it -> (node, info) with info = {"x": type | "views", "fused": None|"mix"|"semseg",
    "top": kind of the outermost layer, "n": len, "collators": bool, "levels": [(node, state) per layer, root first]}.
    base = (node, state) of another chain: the new layers are put on top of that node (the built objects are shared through the
    node's "rid")"""
    if base is None:
        domain = domain or rng.choice(["tensor", "tensor", "tensor1", "pil", "pil", "semseg", "semseg", "common"])
        if domain == "common":
            s = rng.choice([16, 24, 32])
            T = H.t_img("pil", 3, s, rng.choice([s, 20]))
        else:
            T = H.random_input_type(rng, domain)
        n = rng.choice([3, 4, 6, 9])
        root = {"k": "root", "n": n, "T": T, "data_seed": rng.randrange(10 ** 6), "onehot": False, "collators": []}
        cur, curT, views, fused, prev = root, T, False, None, "root"
    else:
        cur, st = base
        curT, views, fused, prev, n, domain = st["curT"], st["views"], st["fused"], st["prev"], st["n"], st["domain"]
        root = next(x for x in _nodes(cur) if x["k"] == "root")
    stochastic = 0

    def state():
        return {"curT": curT, "views": views, "fused": fused, "prev": prev, "n": n, "domain": domain}

    levels = [(cur, state())]
    for _ in range(rng.choice([1, 2, 2, 3, 3, 4])):
        opts = []
        if fused is None:
            opts += DATASET_LEVEL
        if not views:
            if _img(curT):
                opts += ["xt"] * 5
                if prev != "xt" and fused is None:
                    opts += ["mv"] * 4
                    if curT["kind"] == "pil" and curT["c"] == 3:
                        opts += ["common"] * (6 if domain == "common" else 2)
                if allow_fused and _fixed_tensor(curT) and fused is None:
                    opts += ["mix"] * 2
            elif curT["kind"] == "semseg" and allow_fused and fused is None:
                opts += ["semseg"] * 8
        if not opts:
            break
        kind = rng.choice(opts)
        if kind in DATASET_LEVEL:
            cur, n = _dataset_level(rng, kind, cur, n)
        elif kind == "xt":
            tree, outT = gen_tree(rng, H.single(curT), rng.choice([0, 1, 2, 2, 3]))
            cur = {"k": "xt", "tree": tree, "child": cur}
            curT = outT
            if outT.get("multi") or outT["kind"] not in ("pil", "tensor"):
                views = True
            stochastic += 1
        elif kind == "mv":
            cur = {"k": "mv", "configs": _gen_mv_configs(rng, H.single(curT)), "child": cur}
            views = True
            stochastic += 1
        elif kind == "common":
            cls, kw = _gen_common(rng)
            if cls == "ImagenetMinaugXTransformWrapper":
                curT = H.t_img("tensor", 3, kw["size"], kw["size"])
            else:
                views = True
            cur = {"k": "common", "cls": cls, "kw": kw, "child": cur}
            kind = "xt" if cls == "ImagenetMinaugXTransformWrapper" else "mv"
            stochastic += 1
        elif kind == "mix":
            cur = {"k": "mix", "child": cur}
            fused = "mix"
            stochastic += 1
        elif kind == "semseg":
            members, curT = _gen_semseg_members(rng, curT)
            cur = {"k": "semseg", "members": members, "child": cur}
            fused = "semseg"
            stochastic += 1
        prev = kind
        levels.append((cur, state()))
    if stochastic == 0 and not views and fused is None:
        # at least one stochastic layer (of its own, when stacked on a shared base)
        if curT["kind"] == "semseg":
            if not allow_fused:
                if base is None:
                    return gen_chain(rng, allow_fused, allow_collators, "tensor")
            else:
                members, curT = _gen_semseg_members(rng, curT)
                cur = {"k": "semseg", "members": members, "child": cur}
                fused, prev = "semseg", "semseg"
                levels.append((cur, state()))
        else:
            tree, outT = gen_tree(rng, H.single(curT), rng.choice([1, 2]))
            cur = {"k": "xt", "tree": tree, "child": cur}
            curT, prev = outT, "xt"
            views = bool(outT.get("multi")) or outT["kind"] not in ("pil", "tensor")
            levels.append((cur, state()))
    info = {"x": "views" if views else curT, "fused": fused, "top": prev, "n": n, "collators": bool(root["collators"]), "levels": levels}
    if base is None and allow_collators and rng.random() < 0.45:
        cols = [{"c": "draw", "tag": f"collator{i}"} for i in range(rng.choice([1, 1, 2]))]
        root["collators"] = cols
        info["collators"] = True
    return cur, info


def _share_point(rng, info):
    """a layer of a generated chain other chains may be stacked on (the root mostly): -> (node, state), node gets a "rid" """
    cands = [(nd, st) for nd, st in info["levels"] if st["fused"] is None and not st["views"]]
    node, st = cands[0] if (rng.random() < 0.6 or len(cands) == 1) else rng.choice(cands)
    node.setdefault("rid", _new_rid(rng))
    return node, st


def _mode_node(rng, chain, info):
    fused, top = info["fused"], info["top"]
    if fused == "semseg":
        mode = rng.choice(["x semseg", "x semseg", "x", "semseg x", "index x semseg"]) if top == "semseg" else "x"
    elif fused == "mix":
        mode = rng.choice(["x class", "x", "class x", "index x class"])
    else:
        mode = rng.choice(["x", "x", "x class", "index x", "class x index"])
    node = {"k": "mode", "mode": mode, "return_ctx": False, "cform": "compose", "child": chain}
    root = [n for n in _nodes(chain) if n["k"] == "root"]
    if info["collators"]:
        ncol = len(root[0]["collators"])
        node["cform"] = rng.choice(["compose", "compose", "single", "wrapper"]) if ncol == 1 else "compose"
        # a real mix collator where the collated batch is a stack of equally shaped tensors with one-hot classes
        shared = any("rid" in x for x in _nodes(chain))
        if not shared and mode == "x class" and info["x"] != "views" and _fixed_tensor(info["x"]) and rng.random() < 0.6:
            if fused is None:
                root[0]["onehot"] = True
            root[0]["collators"].append({"c": "mix", "kw": {"mixup_alpha": 0.8, "mixup_p": 1.0, "apply_mode": rng.choice(["batch", "sample"]),
                                                          "lamb_mode": rng.choice(["batch", "sample"]),
                                                          "shuffle_mode": rng.choice(["roll", "random"])}})
            node["cform"] = "compose"
        _maybe_composite(rng, root[0], node)
    else:
        node["return_ctx"] = rng.random() < 0.3
    return node


def _maybe_composite(rng, root, node):
    """register the root's collators as ONE composite collator (KDComposeCollator over the members / KDSingleCollatorWrapper
    around a single member) that is used as the collate function directly"""
    cols = root["collators"]
    if cols and cols[0]["c"] in ("compose", "wrapper"):     # shared root: already converted by another part
        node["cform"] = "direct"
        return
    if not cols or rng.random() >= 0.45:
        return
    if len(cols) == 1 and rng.random() < 0.6:
        root["collators"] = [{"c": "wrapper", "member": cols[0], "mode": node["mode"]}]
    else:
        root["collators"] = [{"c": "compose", "members": cols, "mode": node["mode"]}]
    node["cform"] = "direct"


def _nodes(node):
    yield node
    if "child" in node:
        yield from _nodes(node["child"])
    for ch in node.get("children", []):
        yield from _nodes(ch)


def _gen_mode(rng, allow_concat=True, base=None):
    """-> (mode node, len, info of the (first) chain)"""
    if base is None and allow_concat and rng.random() < 0.25:
        first, info = gen_chain(rng, allow_fused=False, allow_collators=False)
        children, total = [first], info["n"]
        # the parts of a concat are often different views of ONE dataset (weak / strong augmentation, two subsets ...)
        share = _share_point(rng, info) if rng.random() < 0.6 else None
        for _ in range(rng.choice([1, 1, 2])):
            ch, inf = gen_chain(rng, allow_fused=False, allow_collators=False, base=share)
            children.append(ch)
            total += inf["n"]
        if share is not None and rng.random() < 0.5:
            children.reverse()
        cur = {"k": "concat", "children": children}
        for _ in range(rng.choice([0, 0, 1, 2])):
            cur, total = _dataset_level(rng, rng.choice(DATASET_LEVEL), cur, total)
        node = {"k": "mode", "mode": rng.choice(["x", "x", "index x", "x class"]), "return_ctx": rng.random() < 0.3, "cform": "compose",
                "child": cur}
        _concat_root_collators(rng, node)
        return node, total, None
    chain, info = gen_chain(rng, base=base)
    return chain, info["n"], info


def _fix_cforms(top):
    """parts sharing a root must agree on how its registered collators are used (a later part may have made them composite)"""
    for m in _nodes(top):
        if m["k"] == "mode":
            for r in _nodes(m):
                if r["k"] == "root" and r.get("collators") and r["collators"][0]["c"] in ("compose", "wrapper"):
                    m["cform"] = "direct"
    return top


def _concat_root_collators(rng, mode_node, prefix=""):
    """stochastic collators registered on the member roots of a concat; the collate function is built from root.collators
    (KDConcatDataset.collators itself is empty by design)"""
    if rng.random() >= 0.6:
        return
    roots, seen = [], set()
    for r in _nodes(mode_node):
        if r["k"] == "root" and id(r) not in seen:
            seen.add(id(r))
            roots.append(r)
    for j, r in enumerate(roots):
        r["collators"] = [{"c": "draw", "tag": f"{prefix}root{j}.collator{i}"} for i in range(rng.choice([1, 1, 2]))]
    mode_node["collate_roots"] = True
    mode_node["return_ctx"] = False
    mode_node["cform"] = "compose"


def _maybe_bare(rng, top, p=0.15):
    """the same stack handed to the workers WITHOUT a ModeWrapper on top (harness adapter serving getitem_x)"""
    import json
    if top["k"] == "mode" and rng.random() < p and '"c": "mix"' not in json.dumps(top):
        top["k"], top["mode"], top["return_ctx"] = "bare", "x", False
    return top


WANT = {
    "bare": lambda top: top["k"] == "bare" and any(n["k"] == "root" and n.get("collators") for n in _nodes(top)),
    "concat_collators": lambda top: any(n.get("collate_roots") for n in _nodes(top)),
    "collators": lambda top: top["k"] != "interleaved" and any(n["k"] == "root" and n.get("collators") for n in _nodes(top)),
    "mix": lambda top: any(n["k"] == "mix" for n in _nodes(top)),
    "edit": lambda top: any(k in __import__("json").dumps(top) for k in ('"edit":', '"late":')),
    "shared_cfg": lambda top: any(n.get("cfg") for n in _nodes(top)),
}


def _until(rng, gen, want):
    """rejection sampling towards a stack family (every run covers every family, independent of the seed)"""
    top = gen()
    for _ in range(200):
        if want is None or WANT[want](top):
            break
        top = gen()
    return top


def gen_sim_stack(rng, want=None):
    return _until(rng, lambda: _maybe_bare(rng, _fix_cforms(_gen_sim_stack(rng)), p=0.5 if want == "bare" else 0.15), want)


def _gen_sim_stack(rng):
    if rng.random() < 0.2:
        # InterleavedSampler: main dataset + side datasets, frequently over the same root (train / eval views of one dataset)
        parts, share = [], None
        for j in range(rng.choice([2, 2, 3])):
            node, n, info = _gen_mode(rng, base=share)
            if info is not None:
                if j == 0 and rng.random() < 0.5:
                    share = _share_point(rng, info)
                parts.append([node, n, info])
            else:
                parts.append([node, n, None])
        out = []
        for node, n, info in parts:
            out.append((_mode_node(rng, node, info) if info is not None else node, n))
        # InterleavedSampler asserts batch_size <= len(main dataset)
        return {"k": "interleaved", "batch_size": min(rng.choice([1, 2, 3]), out[0][1]), "children": [p[0] for p in out]}
    node, n, info = _gen_mode(rng)
    return _mode_node(rng, node, info) if info is not None else node


# ------------------------------------------------------------------------------------------------ probe stacks
NOISE_LEAF = {"t": "leaf", "recipe": "additive_gaussian_noise",
              "params": {"std": 0.3, "magnitude": 0.5, "magnitude_std": "inf", "magnitude_min": 0.0, "magnitude_max": 1.0}}


class _Tagger:
    def __init__(self, prefix):
        self.prefix, self.i = prefix, 0

    def __call__(self, where):
        self.i += 1
        return f"{self.prefix}{self.i}:{where}"


def gen_probe_tree(rng, depth, tag, where="", sched_ok=True, allow_sched=True, patch_ok=True):
    kinds = ["probe", "probe"]
    if depth > 0:
        kinds += ["compose", "compose", "list", "random_apply", "leaf"]
        if patch_ok:
            kinds += ["patchwise"]
        if sched_ok and allow_sched:
            kinds += ["scheduled"]
    kind = rng.choice(kinds)
    if kind == "probe":
        return {"t": "probe", "tag": tag(where or "top")}
    if kind == "leaf":
        return {"t": "compose", "members": [dict(NOISE_LEAF), {"t": "probe", "tag": tag(where + "/after-noise")}]}
    if kind in ("compose", "list"):
        members = [gen_probe_tree(rng, depth - 1, tag, f"{where}/{kind}[{i}]", sched_ok, allow_sched, patch_ok)
                   for i in range(rng.choice([1, 2, 2, 3]))]
        if rng.random() < 0.3:     # a member that is no KDTransform (plain callable), first / in the middle / last
            members.insert(rng.randint(0, len(members)), {"t": "plain"})
        edit = None
        if rng.random() < 0.25:    # the compose is edited after construction: a stochastic member appended / inserted / replacing one
            op = rng.choice(["append", "insert", "replace"])
            edit = {"op": op, "pos": rng.randrange(len(members)), "member": {"t": "probe", "tag": tag(f"{where}/{kind}+{op}")}}
        node = {"t": "compose", "members": members}
        if edit is not None:
            node["late"] = edit
        if kind == "list" and where:     # a bare list is only meaningful as a member of a compose
            node["implicit"] = True
        return node
    if kind == "random_apply":
        return {"t": "random_apply", "p": rng.choice([1.0, 1.0, 0.5]),
                "child": gen_probe_tree(rng, depth - 1, tag, where + "/random_apply", False, allow_sched, patch_ok)}
    if kind == "patchwise":
        return {"t": "patchwise", "patch": 2, "child": gen_probe_tree(rng, depth - 1, tag, where + "/patchwise", False, allow_sched, False)}
    if kind == "scheduled":
        return {"t": "scheduled", "schedule": None, "child": gen_probe_tree(rng, depth - 1, tag, where + "/scheduled", False, allow_sched, patch_ok)}
    raise ValueError(kind)


def gen_probe_chain(rng, prefix, allow_sched=True, allow_collators=True, root=None, semseg=None):
    """root given: the chain is stacked on that (shared, "rid") root node"""
    tag = _Tagger(prefix)
    given = root is not None
    if given:
        semseg = root["T"]["kind"] == "semseg"
        n = root["n"]
    else:
        semseg = (rng.random() < 0.3) if semseg is None else semseg
        T = H.t_semseg("tensor", 4, 4, ncls=3) if semseg else H.t_img("tensor", rng.choice([1, 3]), 4, 4)
        n = rng.choice([6, 8, 12])
        root = {"k": "root", "n": n, "T": T, "data_seed": rng.randrange(10 ** 6), "onehot": False, "collators": []}
    cur, views, prev, fused = root, False, "root", None
    layers = rng.choice([1, 2, 2, 3])
    stochastic = 0
    for li in range(layers):
        opts = [] if fused else ["subset", "shuffle", "pass"]
        if not views:
            if semseg:
                opts += [] if fused else ["semseg"] * 5
            else:
                opts += ["xt"] * 4 + (["mv"] * 3 if prev != "xt" else [])
        if not opts:
            break
        kind = rng.choice(opts)
        if li == layers - 1 and stochastic == 0:
            kind = "semseg" if semseg else rng.choice(["xt", "mv"] if prev != "xt" else ["xt"])
        if kind in DATASET_LEVEL:
            cur, n = _dataset_level(rng, kind, cur, n)
        elif kind == "xt":
            cur = {"k": "xt", "tree": gen_probe_tree(rng, rng.choice([1, 2, 3]), tag, f"L{li}", allow_sched=allow_sched), "child": cur}
            stochastic += 1
        elif kind == "mv":
            configs = []
            for ci in range(rng.choice([1, 2, 3])):
                form = rng.choice(["config", "tuple", "dict", "bare"])
                configs.append({"n": 1 if form == "bare" else rng.choice([1, 2]), "form": form,
                                "tree": gen_probe_tree(rng, rng.choice([0, 1, 2]), tag, f"L{li}/view{ci}", allow_sched=allow_sched)})
            if rng.random() < 0.5:     # a plain-callable view first / in the middle / last
                form = rng.choice(["config", "tuple", "dict", "bare"])
                configs.insert(rng.choice([0, 0, len(configs) // 2, len(configs)]),
                               {"n": 1, "tree": None, "plain": rng.choice(["fn", "obj"]), "form": form})
            cur = {"k": "mv", "configs": configs, "child": cur}
            views = True
            stochastic += 1
        elif kind == "semseg":
            members = []
            for mi in range(rng.choice([1, 2, 3])):
                if rng.random() < 0.5:
                    members.append({"t": "semseg_probe", "tag": tag(f"L{li}/semseg[{mi}]")})
                else:
                    # no schedule here: SemsegTransformWrapper has no hook that could initialise it
                    members.append(gen_probe_tree(rng, rng.choice([0, 1, 2]), tag, f"L{li}/semseg[{mi}]", allow_sched=False))
            cur = {"k": "semseg", "members": members, "child": cur}
            fused = "semseg"
            stochastic += 1
        prev = kind
    if fused == "semseg":
        mode = rng.choice(["x semseg", "x"])
    else:
        mode = rng.choice(["x", "x class", "index x"])
    if allow_collators and not given and rng.random() < 0.5:
        root["collators"] = [{"c": "draw", "tag": f"{prefix}collator{i}"} for i in range(rng.choice([1, 2]))]
    node = {"k": "mode", "mode": mode, "return_ctx": False, "child": cur,
            "cform": rng.choice(["compose", "single", "wrapper"]) if len(root["collators"]) == 1 else "compose"}
    _maybe_composite(rng, root, node)
    return node, n


def gen_probe_stack(rng, want=None):
    if want == "shared_cfg":
        return gen_shared_config_stack(rng)
    return _until(rng, lambda: _maybe_bare(rng, _fix_cforms(_gen_probe_stack(rng)), p=0.5 if want == "bare" else 0.2), want)


def gen_shared_config_stack(rng):
    """an UNSEEDED and a SEEDED KDMultiViewWrapper built from ONE python list of view configs (the wrapper copies the list), main
    and side dataset of an InterleavedSampler with a side pass after every update: both are served by the same workers in
    interleaved order. The unseeded part must still draw worker-specific streams that follow the base seed."""
    tag = _Tagger("s.")
    T = H.t_img("tensor", rng.choice([1, 3]), 4, 4)
    n = rng.choice([6, 8])
    root = {"k": "root", "n": n, "T": T, "data_seed": rng.randrange(10 ** 6), "onehot": False, "collators": [], "rid": _new_rid(rng)}
    configs = []
    for ci in range(rng.choice([1, 2, 3])):
        form = rng.choice(["config", "tuple", "dict", "bare"])
        configs.append({"n": 1 if form == "bare" else rng.choice([1, 2]), "form": form,
                        "tree": gen_probe_tree(rng, rng.choice([0, 0, 1, 2]), tag, f"view{ci}", allow_sched=False)})
    cfg = _new_rid(rng)
    seed = rng.choice([0, 5, rng.randrange(1000)])

    def part(seeded, other_root):
        base = root if not other_root else dict(root, rid=_new_rid(rng), data_seed=rng.randrange(10 ** 6))
        cur = base
        if rng.random() < 0.4:
            cur, _ = _dataset_level(rng, rng.choice(["shuffle", "pass"]), cur, n)
        mv = {"k": "mv", "configs": configs, "cfg": cfg, "child": cur}
        if seeded:
            mv["seed"] = seed
        return {"k": "mode", "mode": rng.choice(["x", "x class"]), "return_ctx": False, "cform": "compose", "child": mv}

    other = rng.random() < 0.3
    parts = [part(False, False), part(True, other)]
    if rng.random() < 0.4:
        parts.reverse()      # the seeded wrapper is constructed first / is the main dataset
    return {"k": "interleaved", "batch_size": 2, "every_n_updates": 1, "children": parts}


def _gen_probe_stack(rng):
    """chain / concat of chains / interleaved chains; the parts of a concat or an interleaved stack frequently sit on ONE root"""
    r = rng.random()
    if r < 0.08:
        return gen_shared_config_stack(rng)
    if r < 0.25:
        first = gen_probe_chain(rng, "i0.", allow_sched=False)
        root = None
        if rng.random() < 0.6:
            root = next(x for x in _nodes(first[0]) if x["k"] == "root")
            root.setdefault("rid", _new_rid(rng))
        parts = [first] + [gen_probe_chain(rng, f"i{j}.", allow_sched=False, root=root) for j in range(1, rng.choice([2, 3]))]
        return {"k": "interleaved", "batch_size": min(rng.choice([2, 3]), parts[0][1]), "children": [p[0] for p in parts]}
    if r < 0.55:
        # no fused wrappers below a concat (ModeWrapper could not address them) -> image roots
        first = gen_probe_chain(rng, "c0.", allow_collators=False, semseg=False)
        root = None
        if rng.random() < 0.7:
            root = next(x for x in _nodes(first[0]) if x["k"] == "root")
            root.setdefault("rid", _new_rid(rng))
        parts = [first] + [gen_probe_chain(rng, f"c{j}.", allow_collators=False, root=root, semseg=False) for j in range(1, rng.choice([2, 2, 3]))]
        kids = [p[0]["child"] for p in parts]
        if rng.random() < 0.5:
            kids.reverse()
        node = {"k": "mode", "mode": "x", "return_ctx": False, "cform": "compose", "child": {"k": "concat", "children": kids}}
        _concat_root_collators(rng, node, prefix="c.")
        return node
    return gen_probe_chain(rng, "")[0]
