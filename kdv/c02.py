"""C02 — stacked subsets / concats / wrappers address the right underlying sample.

Oracle: every layer kind has a one-line index-map model; the harness composes the models into map(k) and compares the
decodable token returned by the REAL stack with the leaf token map(k) names; the leaf's load log must show exactly that
one load. Bulk accessors are compared element-wise with the per-sample accessors; introspection is compared with the
constructed chain.
"""
from __future__ import annotations

import numpy as np
import torch

import kappadata as _kd
import kappadata.wrappers as kdw
import importlib
gat = importlib.import_module("kappadata.utils.getall_as_tensor")

from . import core
from .harness import Leaf, PassWrapper, TagWrapper, untag, call_real, loose_equal

LEVEL = "exploration"
RULE = ("random nestings (depth<=6) of KDSubset, SubsetWrapper, ShuffleWrapper, RepeatWrapper, PercentFilterWrapper, "
        "ClassFilterWrapper, pass-through/tagging KDWrappers and (balanced) KDConcatDataset (arity<=4, nested) over "
        "logging leaf datasets of size 0..40; every valid index incl. negatives is requested; a case is distinct by its "
        "full stack spec and non-trivial if the composed map has >=1 entry and >=1 index-remapping layer")
ASSUMPTIONS = [
    "the index map of a remapping layer is its public torch Subset attribute `indices`; which samples a wrapper selects is C03's concern",
    "introspection is only judged on linear chains (single-part concats count as linear); multi-part concats document 'first part wins'",
    "balanced concats have no length, so they are only used as the outermost layer and only non-negative indices are driven",
]
MONITORS = ["getitem_checked", "leaf_loads_observed", "getall_checked", "introspection_checked"]

KINDS = ["kdsubset", "subsetw_idx", "subsetw_range", "shuffle", "repeat", "percent", "classfilter", "pass", "tag", "concat"]


# ----------------------------------------------------------------------------------------------- generation
def _gen(rng, depth, leaves, allow_concat=True):
    if depth == 0 or rng.random() < 0.12:
        n = rng.choice([0, 1, 1, 2, 3, 5, 8, 13, rng.randint(0, 40)])
        ncls = rng.randint(1, 5)
        tag = f"L{len(leaves)}"
        spec = {"k": "leaf", "n": n, "tag": tag, "classes": [rng.randrange(ncls) for _ in range(n)], "ncls": ncls,
                "getall": rng.choice(["list", "list", "ndarray", "tensor"]), "alias": rng.random() < 0.5}
        leaves.append(spec)
        return spec
    k = rng.choice(KINDS if allow_concat else [x for x in KINDS if x != "concat"])
    if k == "concat":
        arity = rng.choice([1, 2, 2, 3, 4])
        return {"k": "concat", "parts": [_gen(rng, depth - 1, leaves) for _ in range(arity)]}
    return {"k": k, "of": _gen(rng, depth - 1, leaves, allow_concat), "p": [rng.random() for _ in range(6)],
            "seed": rng.randrange(1000)}


def gen_cases(run):
    n = run.n(16000, 960000)
    for i in range(n):
        leaves = []
        depth = run.rng.choice([1, 2, 3, 3, 4, 5, 6])
        spec = _gen(run.rng, depth, leaves)
        balanced = spec["k"] == "concat" and len(spec["parts"]) > 0 and run.rng.random() < 0.35
        yield {"stack": spec, "balanced_top": balanced, "seed": run.rng.randrange(10 ** 6)}


# ----------------------------------------------------------------------------------------------- build + model
class Built:
    def __init__(self):
        self.leaves = {}
        self.leaf_specs = {}
        self.log = []
        self.remaps = 0
        self.rejected = None


def _pick(p, seq):
    return seq[min(int(p * len(seq)), len(seq) - 1)]


def _build(run, spec, B, under_concat=False):
    """returns (real dataset, model) ; model = list of (tags outermost-first, leaf_tag, leaf_idx, class)
    or None if a constructor guard rejected the (sub)stack (then B.rejected is set)"""
    k = spec["k"]
    if k == "leaf":
        kind = "list" if under_concat else spec["getall"]  # KDConcatDataset asserts list results of its direct parts
        ds = Leaf(spec["n"], tag=spec["tag"], classes=spec["classes"], n_classes=spec["ncls"], getall_kind=kind, log=B.log,
                  alias_getall=bool(spec.get("alias")))
        B.leaf_specs[spec["tag"]] = spec
        B.leaves[spec["tag"]] = ds
        return ds, [((), spec["tag"], i, spec["classes"][i]) for i in range(spec["n"])], [ds]
    if k == "concat":
        parts, models, chains = [], [], []
        for ps in spec["parts"]:
            r = _build(run, ps, B, under_concat=True)
            if r is None:
                return None
            parts.append(r[0]); models.append(r[1]); chains.append(r[2])
        ds = _kd.KDConcatDataset(parts)
        model = [m for mm in models for m in mm]
        chain = chains[0] if len(parts) == 1 else None  # concat itself is not listed by all_wrappers
        return ds, model, chain, parts, models
    # KDConcatDataset asserts that its parts' bulk results are lists; pass-through wrappers hand a leaf's bulk result on unchanged
    r = _build(run, spec["of"], B, under_concat=under_concat and k in ("pass", "tag"))
    if r is None:
        return None
    inner, model, chain = r[0], r[1], r[2]
    n = len(model)
    p = spec["p"]
    rng = np.random.default_rng(spec["seed"])

    def remap(ds):
        idx = [int(i) for i in ds.indices]
        B.remaps += 1
        return [model[i] for i in idx]

    if k == "kdsubset":
        if n == 0:
            idx = []
        else:
            m = int(p[0] * (n + 3))
            idx = [int(rng.integers(-n, n)) for _ in range(m)]  # negative entries are valid Subset indices
        container = _pick(p[1], ["list", "ndarray", "tensor"])
        real_idx = idx if container == "list" else (np.array(idx, dtype=np.int64) if container == "ndarray" else torch.tensor(idx, dtype=torch.long))
        ds = _kd.KDSubset(inner, real_idx)
        new_model = [model[i] for i in idx]
        B.remaps += 1
    elif k == "subsetw_idx":
        idx = [] if n == 0 else [int(rng.integers(-n, n)) for _ in range(int(p[0] * (n + 3)))]
        ds = kdw.SubsetWrapper(inner, indices=idx)
        new_model = [model[i] for i in idx]
        B.remaps += 1
    elif k == "subsetw_range":
        a = int(p[0] * (n + 1))
        b = a + int(p[1] * (n + 2 - a))
        if b == 0:
            b = None if a == 0 else 1  # explicit 0 end bound is C03 territory
        kw = {}
        if a > 0 or b is None:
            kw["start_index"] = a
        if b is not None:
            kw["end_index"] = b
        ds = kdw.SubsetWrapper(inner, **kw)
        new_model = remap(ds)
    elif k == "shuffle":
        ds = kdw.ShuffleWrapper(inner, seed=spec["seed"])
        new_model = remap(ds)
    elif k == "repeat":
        if n == 0:
            B.rejected = "repeat-empty"
            return None
        ds = kdw.RepeatWrapper(inner, repetitions=1 + int(p[0] * 3))
        new_model = remap(ds)
    elif k == "percent":
        f, t = sorted([round(p[0], 2), round(p[1], 2)])
        if t == 0:
            t = 1.0
        ds = kdw.PercentFilterWrapper(inner, from_percent=f, to_percent=t)
        new_model = remap(ds)
    elif k == "classfilter":
        classes = sorted({m[3] for m in model}) or [0]
        valid = [c for j, c in enumerate(classes) if p[j % 6] < 0.6] or [classes[0]]
        ds = kdw.ClassFilterWrapper(inner, valid_classes=valid)
        new_model = remap(ds)
    elif k == "pass":
        ds = PassWrapper(inner)
        new_model = model
    elif k == "tag":
        ds = TagWrapper(inner, tag=f"T{spec['seed']}")
        new_model = [((ds.wtag,) + m[0], m[1], m[2], m[3]) for m in model]
    else:
        raise ValueError(k)
    new_chain = None if chain is None else [ds] + chain
    return ds, new_model, new_chain


def _expect_token(m):
    tok = (m[1], m[2])
    for t in reversed(m[0]):
        tok = (t, tok)
    return tok


# ----------------------------------------------------------------------------------------------- case execution
def run_case(run, spec):
    B = Built()
    try:
        r = _build(run, spec["stack"], B)
    except core.StepBudgetExceeded:
        raise
    except Exception as e:
        kind, where = core.classify_exception(e)
        run.violation(f"construct-{kind}:{type(e).__name__}", f"constructing a valid stack failed: {type(e).__name__}: {e} at {where}\n{core.short_tb(e)}")
        return
    if r is None:
        run.refusal(B.rejected or "rejected")
        return
    ds, model, chain = r[0], r[1], r[2]
    rng = np.random.default_rng(spec["seed"])
    balanced = False
    if spec.get("balanced_top") and spec["stack"]["k"] == "concat":
        parts, models = r[3], r[4]
        if all(len(m) > 0 for m in models):
            ds = _kd.KDConcatDataset(parts, balanced_sampling=True)
            balanced = True
            P = len(parts)
            K = 3 * max(len(m) for m in models) * P + 2
            model = [models[k % P][(k // P) % len(models[k % P])] for k in range(K)]
    run.cover(_shape(spec["stack"]), balanced)

    # ---- len
    if not balanced:
        ok, L = call_real(run, lambda: len(ds), what="len(stack)")
        if not ok:
            return
        if L != len(model):
            run.violation("len-mismatch", f"len(stack)={L}, composed map has {len(model)} entries")
            return
    n = len(model)

    # ---- per-sample access, every valid k, plus negatives, in random order with repeats
    ks = list(range(n))
    if not balanced:
        ks += [-j for j in range(1, n + 1)]
    rng.shuffle(ks)
    ks = ks[:120] + ([int(rng.choice(ks))] * 2 if ks else [])
    for k in ks:
        m = model[k]
        for item in ("x", "class"):
            del B.log[:]
            ok, got = call_real(run, lambda: getattr(ds, f"getitem_{item}")(k), what=f"getitem_{item}({k})")
            if not ok:
                return
            run.count("getitem_checked")
            want = _expect_token(m) if item == "x" else m[3]
            if got != want:
                run.violation(f"wrong-sample:{'neg' if k < 0 else 'pos'}{':balanced' if balanced else ''}",
                              f"getitem_{item}({k}) returned {got!r}, map(k) is leaf sample {(m[1], m[2])} -> expected {want!r}")
                return
            loads = [(e[0], e[1], e[2]) for e in B.log]
            run.count("leaf_loads_observed", len(loads))
            if loads != [(item, m[1], m[2])]:
                run.violation("leaf-load-log", f"getitem_{item}({k}) caused leaf loads {loads}, expected exactly [({item!r}, {m[1]!r}, {m[2]})]")
                return
    if n > 0:
        run.count("negatives_checked", 0 if balanced else min(n, 60))

    # ---- a shallow copy of a subset layer with other indices addresses its own samples (nothing of the original sticks to the copy)
    if not balanced and n > 1 and spec["stack"]["k"] in ("kdsubset", "subsetw_idx", "subsetw_range", "shuffle", "repeat", "percent", "classfilter"):
        import copy
        perm = [int(i) for i in rng.permutation(n)][: max(1, n - 1)]
        base_idx = [int(i) for i in ds.indices]
        def clone():
            c = copy.copy(ds)
            c.indices = [base_idx[j] for j in perm]
            return [c.getitem_x(j) for j in range(len(perm))]
        ok, got = call_real(run, clone, what="copy.copy(subset) with new indices")
        if not ok:
            return
        run.count("getitem_checked", len(perm))
        if got != [_expect_token(model[j]) for j in perm]:
            run.violation("copied-subset-uses-stale-state", f"a shallow copy of the top subset layer with re-ordered indices returns {_short(got[:4])}…, its own index map gives {_short([_expect_token(model[j]) for j in perm][:4])}…")
            return
    # ---- bulk == per-sample (getall_class; via the attribute and via utils.getall_as_tensor helpers)
    if not balanced:
        want = [m[3] for m in model]
        ok, bulk = call_real(run, lambda: ds.getall_class(), what="getall_class()")
        if not ok:
            return
        if not loose_equal(bulk, want) or len(bulk) != n:
            run.violation("getall-vs-getitem", f"getall_class()={_short(bulk)} but per-sample labels are {_short(want)}")
            return
        run.count("getall_checked")
        for fn, conv in ((gat.getall, None), (gat.getall_as_list, list), (gat.getall_as_numpy, np.ndarray), (gat.getall_as_tensor, torch.Tensor)):
            ok, res = call_real(run, lambda: fn(ds, item="class"), crash_key="getall-helper-crash", what=f"utils.{fn.__name__}(stack)")
            if not ok:
                return
            if conv is list and not isinstance(res, list) or conv is np.ndarray and not isinstance(res, np.ndarray) or conv is torch.Tensor and not torch.is_tensor(res):
                run.violation("getall-helper-type", f"utils.{fn.__name__} returned {type(res).__name__}")
                return
            if not loose_equal(res, want):
                run.violation("getall-helper-value", f"utils.{fn.__name__}(stack)={_short(res)} but per-sample labels are {_short(want)}")
                return
            run.count("getall_checked")
        # bulk reads are repeatable and never modify the leaves' own label storage (leaves may hand out their internal list)
        ok, bulk2 = call_real(run, lambda: ds.getall_class(), what="getall_class() (second read)")
        if not ok:
            return
        if not loose_equal(bulk2, want) or len(bulk2) != n:
            run.violation("getall-not-repeatable", f"second getall_class()={_short(bulk2)} differs from the per-sample labels {_short(want)} (first read was correct)")
            return
        for tag, leaf in B.leaves.items():
            if list(leaf.classes) != list(B.leaf_specs[tag]["classes"]):
                run.violation("getall-modifies-leaf-labels", f"bulk reads changed the label storage of leaf {tag}: {_short(leaf.classes)} vs {_short(B.leaf_specs[tag]['classes'])}")
                return
        run.count("getall_checked")
        # slow path of getall(): an item without bulk accessor is loaded sample-wise. Inner layers are asked first (what class-aware
        # wrappers and samplers do in their constructors with the dataset they receive), then the layers stacked on them
        layers, cur = [], ds
        while cur is not None and len(layers) < 12:
            layers.append(cur)
            cur = getattr(cur, "dataset", None) if "dataset" in getattr(cur, "__dict__", {}) else (cur.datasets[0] if "datasets" in getattr(cur, "__dict__", {}) and len(cur.datasets) else None)
        for layer in reversed(layers[1:]):
            def inner(layer=layer):
                return gat.getall(layer, item="x"), [layer.getitem_x(i) for i in range(len(layer))]
            ok, pair = call_real(run, inner, what="utils.getall(inner layer,'x')")
            if not ok:
                return
            run.count("getall_inner_layers_checked")
            if list(pair[0]) != pair[1]:
                run.violation("getall-slowpath:inner-layer", f"utils.getall({type(layer).__name__} inside the stack,'x')={_short(pair[0])} differs from its per-sample tokens {_short(pair[1])}")
                return
        ok, res = call_real(run, lambda: gat.getall(ds, item="x"), what="utils.getall(stack,'x')")
        if not ok:
            return
        if list(res) != [_expect_token(m) for m in model]:
            run.violation("getall-slowpath", f"utils.getall(stack,'x')={_short(res)} differs from the per-sample tokens {_short([_expect_token(m) for m in model])} (inner layers were asked before)")
            return
        # parts of a concat that share ONE root, each with a layer that owns resources: dispose() reaches every such layer
        if spec["seed"] % 16 == 0:
            from .harness import DisposeWrapper
            root = Leaf(5, tag="S")
            a = DisposeWrapper(root)
            b = DisposeWrapper(_kd.KDSubset(root, [2, 0, 1]))
            c3 = DisposeWrapper(kdw.ShuffleWrapper(root, seed=3))
            order = [[a, b, c3], [b, a], [c3, b, a]][(spec["seed"] // 16) % 3]
            top = _kd.KDConcatDataset(order)
            if (spec["seed"] // 48) % 2:
                top = PassWrapper(top)
            ok, _ = call_real(run, lambda: top.dispose(), what="dispose() of a concat whose parts share a root")
            if not ok:
                return
            run.count("shared_root_disposals_checked")
            missed = [type(w.dataset).__name__ for w in order if w.own_disposed < 1]
            if missed or root.disposed < 1:
                run.violation("dispose-shared-root", f"dispose() of a concat of {len(order)} parts over one shared root did not reach the resource-owning layer of the part(s) over {missed} "
                                                     f"(root reached {root.disposed} times)")
                return
        # a non-integer item (confidence / weight per sample) through all four helpers: values must survive every conversion
        want_conf = [B.leaves[m[1]].conf_of(m[2]) for m in model]
        for fn in (gat.getall, gat.getall_as_list, gat.getall_as_numpy, gat.getall_as_tensor):
            ok, res = call_real(run, lambda: fn(ds, item="conf"), crash_key="getall-helper-crash", what=f"utils.{fn.__name__}(stack,'conf')")
            if not ok:
                return
            try:
                got_conf = [float(v) for v in res]
            except Exception:
                got_conf = None
            if fn in (gat.getall_as_tensor, gat.getall_as_numpy) and got_conf is not None and len(got_conf) == len(want_conf):
                # torch.tensor(list of python floats) is single precision by torch's own default (the numpy helper converts through it):
                # judged to float32 accuracy
                same = all(abs(a - b) <= 1e-6 * max(1.0, abs(b)) for a, b in zip(got_conf, want_conf))
            else:
                same = got_conf == want_conf   # list / numpy results keep the doubles exactly
            if not same:
                run.violation("getall-helper-value:float-item", f"utils.{fn.__name__}(stack,'conf')={_short(res)} but the per-sample values are {_short(want_conf)}")
                return
            run.count("getall_checked")
        for fn in (gat.getall_as_list,):
            ok, res = call_real(run, lambda: fn(ds, item="x"), what="utils.getall_as_list(stack,'x')")
            if not ok:
                return
            if list(res) != [_expect_token(m) for m in model]:
                run.violation("getall-slowpath", f"utils.{fn.__name__}(stack,'x') second read differs from the per-sample tokens")
                return

    # ---- introspection on linear chains
    if chain is not None and not balanced:
        leaf = chain[-1]
        wrappers = chain[:-1]
        # concat layers are transparent for introspection; find them to exclude nothing: all_wrappers lists wrappers only
        def chk(name, got, want, eq=None):
            run.count("introspection_checked")
            good = eq(got, want) if eq else got == want
            if not good:
                run.violation(f"introspection:{name}", f"{name}: got {_short(got)}, expected {_short(want)}")
            return good
        ok, got = call_real(run, lambda: ds.root_dataset, what="root_dataset")
        if not ok or not chk("root_dataset", got is leaf, True):
            return
        ok, got = call_real(run, lambda: ds.all_wrappers, what="all_wrappers")
        if not ok or not chk("all_wrappers", [id(w) for w in got], [id(w) for w in wrappers]):
            return
        ok, got = call_real(run, lambda: ds.all_wrapper_types, what="all_wrapper_types")
        if not ok or not chk("all_wrapper_types", got, [type(w) for w in wrappers]):
            return
        for T in {type(w) for w in wrappers} | {kdw.XTransformWrapper}:
            want = [w for w in wrappers if type(w) == T]
            ok, got = call_real(run, lambda: ds.get_wrappers_of_type(T), what="get_wrappers_of_type")
            if not ok or not chk("get_wrappers_of_type", [id(w) for w in got], [id(w) for w in want]):
                return
            ok, got = call_real(run, lambda: ds.has_wrapper_type(T), what="has_wrapper_type")
            if not ok or not chk("has_wrapper_type", bool(got), len(want) > 0):
                return
            if len(want) <= 1:
                ok, got = call_real(run, lambda: ds.get_wrapper_of_type(T), what="get_wrapper_of_type")
                if not ok or not chk("get_wrapper_of_type", got is (want[0] if want else None), True):
                    return
        # queries with a BASE class of a layer's type: whichever matching rule the library uses, its lookups must agree with each other
        exact = {type(w) for w in wrappers}
        bases = {b for w in wrappers for b in type(w).__mro__[1:] if b is not object and b not in exact and b.__module__.startswith("kappadata")}
        for T in sorted(bases, key=lambda b: b.__name__):
            ok, pair = call_real(run, lambda: (bool(ds.has_wrapper_type(T)), len(ds.get_wrappers_of_type(T))), what=f"has_wrapper_type / get_wrappers_of_type ({T.__name__})")
            if not ok:
                return
            if not chk("wrapper-type-lookups-disagree", pair[0], pair[1] > 0):
                return
        for w in wrappers:
            ok, got = call_real(run, lambda: ds.has_wrapper(w), what="has_wrapper")
            if not ok or not chk("has_wrapper", bool(got), True):
                return
        foreign = PassWrapper(Leaf(1))
        ok, got = call_real(run, lambda: ds.has_wrapper(foreign), what="has_wrapper(foreign)")
        if not ok or not chk("has_wrapper(foreign)", bool(got), False):
            return
        ok, got = call_real(run, lambda: ds.leaf_marker, what="attribute delegation")
        if not ok or not chk("attribute-delegation", got, leaf.leaf_marker):
            return
        ok, got = call_real(run, lambda: ds.class_names, what="attribute delegation (class_names)")
        if not ok or not chk("attribute-delegation:class_names", got, leaf.class_names):
            return
        ok, got = call_real(run, lambda: (ds.getshape_class(), ds.getdim_class(), ds.getshape("class"), ds.getdim("class")), what="shape delegation")
        nc = leaf.getshape_class()
        if not ok or not chk("shape-delegation", got, (nc, nc[0], nc, nc[0])):
            return
        ok, got = call_real(run, lambda: (ds.getshape_class_coarse(), ds.getdim_class_coarse(), ds.getdim("class_coarse")), what="shape delegation (item name with underscore)")
        nc2 = leaf.getshape_class_coarse()
        if not ok or not chk("shape-delegation:underscore-item", got, (nc2, nc2[0], nc2[0])):
            return
        # dispose reaches the leaf exactly once (plain call and context-manager form)
        before = leaf.disposed
        ok, _ = call_real(run, lambda: ds.dispose(), what="dispose()")
        if not ok or not chk("dispose", leaf.disposed - before, 1):
            return
        before = leaf.disposed

        def cm():
            with ds as d:
                assert d is ds
        ok, _ = call_real(run, cm, what="with stack:")
        if not ok or not chk("dispose-contextmanager", leaf.disposed - before, 1):
            return
    elif not balanced:
        # non-linear: dispose must reach every leaf exactly once
        before = {t: l.disposed for t, l in B.leaves.items()}
        ok, _ = call_real(run, lambda: ds.dispose(), what="dispose()")
        if not ok:
            return
        bad = {t: l.disposed - before[t] for t, l in B.leaves.items() if l.disposed - before[t] != 1}
        run.count("introspection_checked")
        if bad:
            run.violation("dispose-nonlinear", f"dispose() reached leaves {bad} times (expected once each)")
            return
    run.sample({"stack": _shape(spec["stack"]), "len": n, "balanced": balanced, "map_head": [(m[1], m[2]) for m in model[:6]]})


def _shape(s):
    if s["k"] == "leaf":
        return f"leaf{s['n']}"
    if s["k"] == "concat":
        return "concat(" + ",".join(_shape(p) for p in s["parts"]) + ")"
    return f"{s['k']}({_shape(s['of'])})"


def _short(v):
    r = repr(v)
    return r if len(r) < 300 else r[:300] + "…"
