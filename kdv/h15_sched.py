"""C15 helpers: driving KDScheduledTransform under simulated round-robin workers and under a real DataLoader."""
from __future__ import annotations

import contextlib
import copy

import numpy as np
import torch
from torch.utils.data import DataLoader, get_worker_info

from kappadata.datasets.kd_dataset import KDDataset

from . import h15_recgen as R

STRENGTH_KEY = "KDScheduledTransform.strength"     # "<prefix>.strength", prefix = class name (the documented default)


@contextlib.contextmanager
def as_worker(rank, num_workers, seed=1234, dataset=None):
    """make torch.utils.data.get_worker_info() answer like in DataLoader worker `rank` of `num_workers`
    (this is the process-global torch itself sets in a worker before it calls worker_init_fn)"""
    from torch.utils.data._utils import worker as tw
    prev = tw._worker_info
    tw._worker_info = tw.WorkerInfo(id=rank, num_workers=num_workers, seed=seed, dataset=dataset)
    try:
        yield
    finally:
        tw._worker_info = prev


# ------------------------------------------------------------------------------------------------ schedules
def schedule_arg_and_reference(s):
    """-> (object handed to KDScheduledTransform(schedule=...), reference(b, n) computed on an independent object)"""
    import kappaschedules as ks
    t = s["type"]
    if t == "default":
        ref = ks.LinearIncreasingSchedule()
        return None, lambda b, n: ref.get_value(b, n)
    if t == "custom":
        vals = list(s["values"])
        return list(vals), lambda b, n: vals[b]
    if t == "const":
        v = s["value"]
        return v, lambda b, n: v
    if t == "dict":
        ref = ks.object_to_schedule(copy.deepcopy(s["cfg"]))
        return copy.deepcopy(s["cfg"]), lambda b, n: ref.get_value(b, n)
    if t == "object":
        ref = ks.object_to_schedule(copy.deepcopy(s["cfg"]))
        return ks.object_to_schedule(copy.deepcopy(s["cfg"])), lambda b, n: ref.get_value(b, n)
    raise ValueError(t)


def gen_schedule(rng, n):
    r = rng.random()
    if r < 0.15:
        return {"type": "default"}
    if r < 0.5:
        # decodable: distinct value per batch (plus the two ends)
        vals = [round(rng.random(), 6) for _ in range(n + rng.choice([0, 0, 3]))]
        if n >= 2 and rng.random() < 0.5:
            vals[rng.randrange(n)] = 0.0
            vals[rng.randrange(n)] = 1.0
        return {"type": "custom", "values": vals}
    if r < 0.58:
        return {"type": "const", "value": rng.choice([0.0, 1.0, 0.3])}
    kind = rng.choice(["linear_increasing_schedule", "linear_decreasing_schedule", "cosine_increasing_schedule", "cosine_decreasing_schedule",
                       "polynomial_increasing_schedule"])
    cfg = {"kind": kind}
    if rng.random() < 0.5:
        a, b = sorted([round(rng.random(), 3), round(rng.random(), 3)])
        if "increasing" in kind:
            cfg.update(start_value=a, max_value=b)
        else:
            cfg.update(max_value=b, end_value=a)
    if rng.random() < 0.3:
        cfg["exclude_first"] = True
    if rng.random() < 0.3:
        cfg["exclude_last"] = True
    if kind.startswith("polynomial"):
        cfg["power"] = rng.choice([1, 2, 0.5])
    return {"type": rng.choice(["dict", "object"]), "cfg": cfg}


# ------------------------------------------------------------------------------------------------ init kwargs / model
def init_kwargs(spec):
    """-> (kwargs for worker_init_fn, number of batches the schedule spans, number of full batches that are driven)"""
    B, n = spec["B"], spec["n"]
    k = spec["init"]
    if k == "updates":
        return {"batch_size": B, "updates": n}, n, n
    if k == "samples":
        return {"batch_size": B, "samples": n * B}, n, n
    if k == "samples_partial":
        # a partial final batch exists but is not driven / judged (outside the claim); the schedule spans n + 1 batches
        return {"batch_size": B, "samples": n * B + spec["rest"]}, n + 1, n
    if k == "epochs":
        E, per_epoch = spec["epochs"], spec["n"] // spec["epochs"]
        world = spec["world"]
        return {"batch_size": B, "epochs": E, "dataset_len": per_epoch * B * world, "world_size": world, "drop_last": spec["drop_last"]}, E * per_epoch, E * per_epoch
    raise ValueError(k)


# ------------------------------------------------------------------------------------------------ dataset stack
class SchedLeaf(KDDataset):
    def __init__(self, n, x):
        super().__init__()
        self.n, self.x = n, x

    def getitem_x(self, idx, ctx=None):
        return R.clone_input(self.x)

    def getitem_wid(self, idx, ctx=None):
        info = get_worker_info()
        return -1 if info is None else info.id

    def __len__(self):
        return self.n


def make_stack(pipe, n, x):
    from kappadata.wrappers.mode_wrapper import ModeWrapper
    from kappadata.wrappers.sample_wrappers.x_transform_wrapper import XTransformWrapper
    return ModeWrapper(XTransformWrapper(SchedLeaf(n, x), transform=pipe), mode="index wid x", return_ctx=True)


class LoaderWorkerInit:
    """what `partial(dataset.worker_init_fn, batch_size=..., updates=...)` does, followed by handing the harness
    generator to every transform of the worker's dataset copy"""

    def __init__(self, kwargs, hook_factory=None):
        self.kwargs = kwargs
        self.hook_factory = hook_factory

    def __call__(self, worker_id):
        ds = get_worker_info().dataset
        ds.worker_init_fn(worker_id, **self.kwargs)
        g = R.RecGen(np.random.PCG64(worker_id), u="hi", gate=0.0, choice_hook=None if self.hook_factory is None else self.hook_factory())
        R.inject(ds, g)


class RepeatSampler(torch.utils.data.Sampler):
    def __init__(self, n, times):
        self.n, self.times = n, times

    def __iter__(self):
        for _ in range(self.times):
            yield from range(self.n)

    def __len__(self):
        return self.n * self.times


def run_loader(stack, B, W, worker_init, epochs=1):
    """-> list of (items, ctx) batches of one pass"""
    kw = {}
    if epochs > 1:
        kw["sampler"] = RepeatSampler(len(stack), epochs)
    loader = DataLoader(stack, batch_size=B, num_workers=W, worker_init_fn=worker_init, multiprocessing_context="fork", **kw)
    return [batch for batch in loader]
