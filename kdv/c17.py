"""C17 — mask collators emit well-formed, budget-respecting, non-overlapping masks.

The REAL collators (KDDinoMaskCollator, KDIjepaMaskCollator) are called the way a dataloader calls them — with a list of
ModeWrapper-style samples `(items, ctx)` — and only what comes back is judged:

DINO   ctx["mask"] is a bool tensor (B*views, H, W); at most floor(B*views*p) masks are non-empty; no mask has more than
       ceil(ratio_max*H*W) set cells.
I-JEPA ctx["encoder_masks"] / ctx["predictor_masks"] are integer matrices with n_enc*B / n_pred*B rows (row j*B+b = mask j
       of sample b, the layout the repository's own test slices); every row is in range and strictly increasing; every
       predictor row decodes (idx = r*W + c) to a full rectangle and all predictor rows of one call have the same size;
       in configurations where the harness-side size model says (smallest encoder block) - n_pred*(largest predictor
       block) > min_keep, no encoder row shares an index with a predictor row of the same sample; collators with different
       rngs / batch sizes / global RNG states that are at the same step emit equal block sizes.
both   the returned batch (and the foreign ctx keys) equal default collation of the untouched input; every call stays
       inside a logical step budget derived from the configuration.
"""
from __future__ import annotations

import importlib
import math
from fractions import Fraction

import numpy as np
import torch
from torch.utils.data import default_collate

from . import core
from .harness import GlobalRngSentinel, StepBudget, call_real, codes_of, same

_dino_mod = importlib.import_module("kappadata.collators.kd_dino_mask_collator")
_ijepa_mod = importlib.import_module("kappadata.collators.kd_ijepa_mask_collator")
KDDinoMaskCollator = _dino_mod.KDDinoMaskCollator
KDIjepaMaskCollator = _ijepa_mod.KDIjepaMaskCollator

LEVEL = "exploration"
RULE = ("alternating DINO / I-JEPA configurations: grids 3..24 (square and non-square), batch sizes 1..8 (B=1 boosted), "
        "DINO: budget-boundary triples (batch up to 64, views up to 5, prob with B*views*prob within 1e-9 of an integer and float associations that disagree, incl. (30,3,.7) (60,3,.35) (50,3,.82) (18,5,.7)) on small grids; views 1..3 (x as one tensor, as a list of exactly the configured views, or as a multi-crop list with 1..8 extra local crops of another spatial size), mask_prob from {0, 1, k/(B*views), random}, ratio ranges from {scalar, lo=0, hi=1, k/(H*W) ends, "
        "random}, min_num_patches 1..8, aspect ranges, histories of 1..4 calls on one collator object with constant / shrinking (last partial batch) / growing / there-and-back / arbitrary batch sizes and every clause applied to every call; reconfiguration histories (public attributes reassigned between calls, clauses judged against the configuration in force at each call, I-JEPA third collator built with the final configuration); I-JEPA: input sizes with remainders 0..patch-1 per axis (below / above half a patch; grid = floor(input / patch)), scalar and (h, w) patch sizes with h != w on square and non-square grids / inputs, encoder/predictor scale ranges, aspect ranges, "
        "1..3 encoder and 1..4 predictor masks, min_keep from {0, largest admissible, random}, tries 1..20, classes "
        "{in-domain, relaxation-prone, one-patch predictor block, empty predictor block (encoder size becomes decodable), "
        "library defaults}, three collators per case (different rng seeds, batch sizes, global RNG states; the third is "
        "advanced with step()) called 1..4 times, each with its own batch-size history (same call count = same steps); dataset modes with 1..3 items, with/without per-sample ctx entries; "
        "a case is distinct by its full spec; trivial = return_ctx=False (only the batch pass-through is observable)")
ASSUMPTIONS = [
    "reconfiguration histories reassign only the public attributes the collators read at call time on the unchanged tree: DINO mask_ratio "
    "(as a (lo, hi) pair), mask_prob, num_views, min_num_patches; I-JEPA encoder_mask_scale, predictor_mask_scale, predictor_aspect_ratio, "
    "num_enc_masks, num_pred_masks, min_keep, tries. Not driven because they are consumed at construction (derived state is built from them): "
    "DINO mask_size (stored as height/width/num_patches) and min_aspect/max_aspect (stored as log bounds), I-JEPA input_size/patch_size (grid "
    "stored as seqlen_h/seqlen_w); dataset_mode/return_ctx are not reassigned either. A reassigned value the object does not report back is not judged",
    "row layout of the I-JEPA ctx tensors is (mask j, sample b) -> row j*B+b and indices are row-major r*W+c, as sliced/compared by tests_unit/collators/test_kd_ijepa_mask_collator.py",
    "domain predicate for disjointness uses a harness-side size model: a block of scale s has about s*H*W patches, side lengths "
    "sqrt(area*ar), sqrt(area/ar) rounded by at most 1 and never larger than grid-1; encoder lower bound from the lower end of "
    "its scale range, predictor upper bound from the upper end of its scale range and the worse end of its aspect range; if an "
    "observed predictor rectangle exceeds the model the case is not judged for disjointness",
    "min_keep is only driven below the model's smallest encoder block (otherwise no mask can ever have more than min_keep patches; the reference implementation loops forever there as well)",
    "the I-JEPA grid is floor(input / patch) per axis (what the unchanged tree computes; patch sizes are scalars or (height, width) pairs), input sizes are driven with remainders 0 .. patch-1 per axis; KDDinoMaskCollator takes the grid itself (mask_size), no patch size; at least one encoder and one predictor mask",
    "predictor scales so small that the block has zero area are treated as legal configurations (int(H*W*scale) == 0)",
    "DINO: the non-empty budget floor(B*views*p) is evaluated in exact rational arithmetic on the double value of mask_prob, and the value of the documented "
    "float expression int(batch*views*prob) is accepted as well where it differs; the decimal-literal reading of mask_prob (0.7 = 7/10) is NOT accepted "
    "(it is one more on triples such as (30, 3, 0.7)); the ceil bound of the mask ratio is accepted in float64, float32 and exact rational arithmetic",
    "DINO: which samples get the non-empty masks and lower bounds on mask sizes are not claimed by the property",
    "encoder block size is only observable when the predictor blocks are empty; otherwise the step-only clause is judged on predictor sizes",
    "the ambient-contract layer of DESIGN 1.5 (contracts while the pinned suite runs) is replaced by replaying the two pinned test configurations under the same oracle",
]
MONITORS = ["ijepa_cases_with_remainder_above_half_patch", "dino_budget_boundary_calls", "dino_calls_after_reconfiguration", "ijepa_calls_after_reconfiguration", "ijepa_cases_with_nonsquare_patch", "dino_multicrop_calls", "dino_calls_after_batch_size_change", "ijepa_calls_after_batch_size_change", "dino_calls_checked", "dino_nonempty_masks_seen", "ijepa_calls_checked", "ijepa_pred_rectangles_decoded",
            "ijepa_disjointness_checked_in_domain", "ijepa_step_size_differential_checked", "ijepa_encoder_size_decoded",
            "batch_passthrough_checked", "step_budget_runs"]

MODES = ["x", "index x", "x class", "index x class", "class x index"]
_CODES = []


def _codes():
    if not _CODES:
        _CODES.extend(codes_of(_dino_mod, _ijepa_mod))
    return _CODES


# ------------------------------------------------------------------------------------------------- generation
def _grid(rng, quick):
    r = rng.random()
    if r < 0.12:
        h = w = 3
    elif r < 0.55:
        h = w = rng.randint(4, 10)
    elif r < 0.75:
        h = w = rng.choice([12, 14, 14, 16])
    elif r < 0.83:
        h = w = rng.randint(17, 24)
    else:
        h, w = rng.randint(3, 16), rng.randint(3, 16)
    return h, w


def _batch_size(rng, cells):
    b = rng.choice([1, 1, 2, 3, 4, 5, 6, 7, 8])
    if cells > 300:
        b = min(b, 4)
    return b


def _history(rng, cells, calls):
    """batch sizes of consecutive calls on ONE collator object: constant, last partial batch (smaller), larger, there
    and back, arbitrary"""
    b = _batch_size(rng, cells)
    if calls == 1:
        return [b]
    cap = 4 if cells > 300 else 8
    kind = rng.choice(["const", "shrink", "shrink", "grow", "back", "random"])
    if kind == "shrink" and b >= 2:
        return [b] * (calls - 1) + [rng.randint(1, b - 1)]
    if kind == "grow" and b < cap:
        return [b] * (calls - 1) + [rng.randint(b + 1, cap)]
    if kind == "back" and calls >= 3:
        other = rng.choice([x for x in range(1, cap + 1) if x != b])
        return [b if i % 2 == 0 else other for i in range(calls)]
    if kind == "random":
        return [rng.randint(1, cap) for _ in range(calls)]
    return [b] * calls


def _hist_class(h):
    if len(h) == 1:
        return "single"
    if len(set(h)) == 1:
        return "const"
    d = {("shrink" if y < x else "grow") for x, y in zip(h, h[1:]) if x != y}
    return "both" if len(d) == 2 else d.pop()


def _as_history(b, calls):
    """older specs carry one batch size per collator"""
    return list(b) if isinstance(b, list) else [b] * calls


def _frac(rng, n):
    """a ratio in [0, 1] biased to multiples of 1/n"""
    r = rng.random()
    if r < 0.45 and n > 0:
        return rng.randint(0, n) / n
    if r < 0.6:
        return rng.choice([0.1, 0.2, 0.3, 0.5, 0.7, 1 / 3, 0.15])
    return round(rng.random(), rng.choice([2, 3, 16]))


BOUNDARY_TRIPLES = [(30, 3, 0.7), (60, 3, 0.35), (50, 3, 0.82), (18, 5, 0.7)]


def _boundary_triple(rng):
    """(batch, views, prob) where batch*views*prob is within 1e-9 of an integer without being computed as one in every
    association, i.e. where int((b*p)*v), int(b*(p*v)), int((b*v)*p) or the exact floor disagree"""
    for _ in range(300):
        b, v = rng.randint(2, 64), rng.randint(1, 5)
        p = rng.choice([rng.randint(1, 99) / 100, rng.randint(1, 999) / 1000, rng.randint(1, b * v) / (b * v)])
        vals = {int((b * p) * v), int(b * (p * v)), int((b * v) * p), int(math.floor(Fraction(p) * b * v))}
        if len(vals) > 1 and abs(b * v * p - round(b * v * p)) < 1e-9:
            return b, v, p
    return rng.choice(BOUNDARY_TRIPLES)


def _gen_dino_boundary(rng):
    b, v, p = rng.choice(BOUNDARY_TRIPLES) if rng.random() < 0.4 else _boundary_triple(rng)
    g = rng.choice([4, 5, 6])
    lo = rng.choice([0.3, 0.4, 0.5])
    # small grid, ratios well above 1/cells: every budgeted mask gets at least one cell, so the count attains the budget
    return {"kind": "dino", "H": g, "W": g, "B": [b] * rng.choice([1, 2]), "views": v, "p": p, "ratio": [lo, lo + 0.2],
            "min_num_patches": rng.choice([1, 2, 4]), "min_aspect": 0.3, "max_aspect": None, "mode": rng.choice(MODES),
            "x_form": rng.choice(["list", "tensor"]), "ctx_tags": False, "return_ctx": True, "calls": 0, "boundary": True,
            "extra_views": 0, "extra_size": 1, "seed": rng.randrange(2 ** 31), "g": rng.randrange(2 ** 31)}


def _gen_dino(rng, quick):
    if rng.random() < 0.08:
        spec = _gen_dino_boundary(rng)
        spec["calls"] = len(spec["B"])
        return spec
    H, W = _grid(rng, quick)
    cells = H * W
    calls = rng.choice([1, 2, 3, 3, 4])
    hist = _history(rng, cells, calls)
    B = rng.choice(hist)
    views = rng.choice([1, 2, 2, 3])
    n = B * views
    r = rng.random()
    if r < 0.12:
        p = 0.0
    elif r < 0.3:
        p = 1.0
    elif r < 0.65:
        p = rng.randint(0, n) / n
    else:
        p = round(rng.random(), rng.choice([1, 2, 16]))
    r = rng.random()
    if r < 0.25:
        ratio = _frac(rng, cells)  # scalar -> degenerate range: every masked sample aims at the same count
        if cells > 200:
            ratio = min(ratio, 0.6)
    else:
        a, b = sorted([_frac(rng, cells), _frac(rng, cells)])
        if r < 0.35:
            a = 0.0
        if r > 0.92:
            b = 1.0
        if cells > 200 and b > 0.7:
            b = 0.7
            a = min(a, b)
        ratio = [a, b]
    spec = {
        "kind": "dino", "H": H, "W": W, "B": hist, "views": views, "p": p, "ratio": ratio,
        "min_num_patches": rng.choice([4, 4, 1, 2, 3, 6, 8]),
        "min_aspect": rng.choice([0.3, 0.3, 0.2, 0.5, 1.0, round(rng.uniform(0.2, 1.0), 2)]),
        "max_aspect": rng.choice([None, None, 1.0, 2.0, round(rng.uniform(1.0, 4.0), 2)]),
        "mode": rng.choice(MODES), "x_form": rng.choice(["list", "list", "tensor"]), "ctx_tags": rng.random() < 0.5,
        "return_ctx": rng.random() < 0.94, "calls": calls,
        "seed": rng.randrange(2 ** 31), "g": rng.randrange(2 ** 31),
    }
    # multi-crop batches: x carries more views than the configured num_views (extra local crops, usually of another
    # spatial size); masks are promised per (sample x CONFIGURED view)
    spec["extra_views"] = rng.choice([0, 0, 1, 2, 4, 6, 8]) if spec["x_form"] == "list" else 0
    spec["extra_size"] = rng.choice([1, 2, 3])
    # reconfiguration history: public configuration attributes are reassigned between two calls on the same object
    if calls >= 2 and rng.random() < 0.45:
        hi = ratio if not isinstance(ratio, list) else ratio[1]
        reconf = {}
        for c in sorted(rng.sample(range(1, calls), rng.choice([1, 1, 2]) if calls > 2 else 1)):
            ch = {}
            for attr in rng.sample(["mask_ratio", "mask_ratio", "mask_prob", "num_views", "min_num_patches"], rng.choice([1, 1, 2, 3])):
                if attr == "mask_ratio":
                    if rng.random() < 0.6:  # a clearly lower range: a stale upper bound becomes visible
                        b = hi * rng.choice([0.1, 0.25, 0.5])
                    else:
                        b = min(_frac(rng, cells), 0.7 if cells > 200 else 1.0)
                    a = rng.choice([0.0, b, b * rng.random()])
                    ch["mask_ratio"] = [a, b]
                    hi = b
                elif attr == "mask_prob":
                    ch["mask_prob"] = rng.choice([0.0, 1.0, round(rng.random(), 2), rng.randint(0, n) / n, p / 2])
                elif attr == "num_views":
                    ch["num_views"] = rng.choice([v for v in (1, 2, 3) if v != views])
                else:
                    ch["min_num_patches"] = rng.choice([1, 2, 4, 8])
            reconf[str(c)] = ch
        spec["reconf"] = reconf
    return spec


def ijepa_model(spec):
    """harness-side size model (see ASSUMPTIONS): (smallest encoder block area, largest predictor block area)"""
    H, W = spec["H"], spec["W"]
    cells = H * W
    k = cells * spec["enc_scale"][0] - 1.0
    side = max(0, math.ceil(math.sqrt(max(k, 0.0)) - 1.0))
    enc_lb = min(side, H - 1) * min(side, W - 1)
    k = cells * spec["pred_scale"][1]
    g = max(math.sqrt(a) + 1.0 / math.sqrt(a) for a in spec["pred_ar"])
    pred_ub = min(math.ceil(k + math.sqrt(k) * g + 1.0), cells)
    return enc_lb, pred_ub


IJEPA_CFG_KEYS = ("enc_scale", "pred_scale", "pred_ar", "n_enc", "n_pred", "min_keep", "tries")
IJEPA_ATTR = {"enc_scale": "encoder_mask_scale", "pred_scale": "predictor_mask_scale", "pred_ar": "predictor_aspect_ratio",
              "n_enc": "num_enc_masks", "n_pred": "num_pred_masks", "min_keep": "min_keep", "tries": "tries"}


def _ijepa_cfg(rng, H, W):
    """one admissible configuration for the grid (or None): dict with IJEPA_CFG_KEYS + cls (+ H, W, kind)"""
    cells = H * W
    want = rng.choices(["indomain", "relax", "onepatch", "predempty", "defaults"], weights=[56, 14, 14, 10, 6])[0]
    if want == "defaults" and (H, W) != (14, 14):
        want = "indomain"
    n_enc = rng.choice([1, 1, 2, 3])
    n_pred = rng.choice([1, 2, 3, 4, 4])
    elo = rng.choice([0.85, 1.0, round(rng.uniform(0.4, 1.0), 3)])
    ehi = rng.choice([1.0, elo, round(rng.uniform(elo, 1.0), 3)])
    ar = rng.choice([[0.75, 1.5], [1.0, 1.0], [0.5, 2.0], [0.3, 3.0], [1.0, 2.0]])
    spec = {"kind": "ijepa", "H": H, "W": W, "enc_scale": [elo, ehi], "pred_ar": ar, "n_enc": n_enc, "n_pred": n_pred}
    if want == "defaults":
        spec.update(enc_scale=[0.85, 1.0], pred_scale=[0.15, 0.2], pred_ar=[0.75, 1.5], n_enc=1, n_pred=4)
    elif want == "onepatch":
        c = rng.choice([1.0, 1.0, 1.5, 2.0, 2.5])
        spec["pred_scale"] = [c / cells + 1e-9, rng.choice([c, c + 0.4]) / cells + 1e-9]
        spec["pred_ar"] = rng.choice([[1.0, 1.0], [0.75, 1.5], [0.75, 1.25]])
    elif want == "predempty":
        hi = rng.choice([0.0, 0.5 / cells, 0.9 / cells])
        spec["pred_scale"] = [rng.choice([0.0, hi]), hi]
    else:
        enc_lb, _ = ijepa_model(dict(spec, pred_scale=[0, 0]))
        if want == "indomain":
            top = max(enc_lb / (cells * n_pred) * rng.choice([0.3, 0.5, 0.7]), 1.2 / cells)
        else:
            top = rng.choice([0.15, 0.2, 0.3, 0.4])
        phi = round(rng.uniform(top / 3, top), 4)
        spec["pred_scale"] = [rng.choice([phi, round(phi * rng.uniform(0.5, 1.0), 4)]), phi]
    enc_lb, pred_ub = ijepa_model(spec)
    if enc_lb < 1:
        return None
    diff = enc_lb - spec["n_pred"] * pred_ub
    if want == "indomain" and diff < 1:
        return None
    if want == "relax" and diff >= 1:
        return None
    if want == "defaults":
        min_keep = 10 if enc_lb > 10 else 0
    elif diff >= 1:
        min_keep = rng.choice([0, diff - 1, diff - 1, rng.randint(0, diff - 1)])
    else:
        min_keep = rng.choice([0, enc_lb - 1, rng.randint(0, enc_lb - 1), min(10, enc_lb - 1)])
    spec.update(cls=want, min_keep=min_keep, tries=rng.choice([20, 20, 1, 2, 5, 10]))
    return spec


def _gen_ijepa(rng, quick):
    for _ in range(60):
        H, W = _grid(rng, quick)
        if rng.random() < 0.06:
            H = W = 14
        cells = H * W
        spec = _ijepa_cfg(rng, H, W)
        if spec is None:
            continue
        steps = rng.choice([1, 2, 3, 3, 4])
        patch = _patch(rng, H, W)
        spec.update(
            patch=patch, rem=[_rem(rng, q) for q in (patch if isinstance(patch, list) else (patch, patch))],
            B=[_history(rng, cells, steps), _history(rng, cells, steps), rng.choice([1, 2, 3])], steps=steps,
            mode=rng.choice(MODES), ctx_tags=rng.random() < 0.5, return_ctx=rng.random() < 0.95,
            seeds=[rng.randrange(2 ** 31) for _ in range(3)], g=[rng.randrange(2 ** 31) for _ in range(3)],
            size_form=rng.choice(["int", "tuple"]),
        )
        # reconfiguration history: public configuration attributes are reassigned (on both compared collators alike)
        # before one of the later calls; the third collator is constructed with the final configuration
        if steps >= 2 and rng.random() < 0.4:
            for _ in range(20):
                new = _ijepa_cfg(rng, H, W)
                if new is None:
                    continue
                keys = list(IJEPA_CFG_KEYS) if rng.random() < 0.5 else rng.sample(IJEPA_CFG_KEYS, rng.choice([1, 2, 3]))
                ch = {k: new[k] for k in keys}
                merged = dict(spec, **ch)
                if ijepa_model(merged)[0] > merged["min_keep"]:
                    spec["reconf"] = {str(rng.randint(1, steps - 1)): ch}
                    break
        return spec
    raise core.Inconclusive("I-JEPA generator found no admissible configuration in 60 attempts")


def _patch(rng, H, W):
    """patch size: scalar, or a (height, width) pair with height != width; the grid (H, W) of the spec stays the truth,
    the input size is derived from it (input = grid * patch per axis)"""
    r = rng.random()
    if r < 0.5:
        return rng.choice([1, 2, 16])
    if r < 0.65 and H != W:
        g = math.gcd(H, W)
        return [W // g, H // g]  # non-square grid, non-square patches, SQUARE input
    return rng.choice([[1, 2], [2, 1], [8, 16], [16, 8], [2, 3], [3, 2], [4, 1], [16, 14]])


def _rem(rng, q):
    """input size = grid * patch + remainder, 0 <= remainder < patch: exact multiple, below / exactly / above half a patch,
    one pixel short of the next patch"""
    if q < 2 or rng.random() < 0.45:
        return 0
    return rng.choice([1, max(1, q // 2 - 1), q // 2, min(q - 1, q // 2 + 1), q - 1, q - 1])


def _pinned(quick):
    """the two configurations of the repository's own collator tests (tests_unit/collators), under this oracle"""
    yield {"kind": "dino", "H": 14, "W": 14, "B": 10, "views": 2, "p": 0.5, "ratio": [0.1, 0.5], "min_num_patches": 4,
           "min_aspect": 0.3, "max_aspect": None, "mode": "index x", "x_form": "list", "ctx_tags": False, "return_ctx": True,
           "calls": 4 if quick else 100, "seed": 0, "g": 1}
    yield {"kind": "ijepa", "H": 14, "W": 14, "enc_scale": [0.85, 1.0], "pred_scale": [0.15, 0.2], "pred_ar": [0.75, 1.5],
           "n_enc": 1, "n_pred": 4, "cls": "defaults", "min_keep": 10, "tries": 20, "patch": 16, "B": [10, 3, 1],
           "steps": 6 if quick else 100, "mode": "index x", "ctx_tags": False, "return_ctx": True, "seeds": [0, 1, 2],
           "g": [3, 4, 5], "size_form": "int"}


def gen_cases(run):
    quick = run.quick()
    if run.shard is None or run.shard[0] == 0:
        yield from _pinned(quick)
    n = run.n(800, 40000)
    for i in range(n):
        spec = _gen_dino(run.rng, quick) if i % 2 == 0 else _gen_ijepa(run.rng, quick)
        if not spec["return_ctx"]:
            spec["_trivial"] = True
        yield spec


# ------------------------------------------------------------------------------------------------- inputs
def _samples(spec, B, dino):
    """list of ModeWrapper-style samples for one batch, freshly built (so that the reference never shares storage
    with what the collator was given)"""
    items = spec["mode"].split(" ")
    views = spec.get("views", 1)
    out = []
    for i in range(B):
        vals = []
        for it in items:
            if it == "x":
                if dino and spec["x_form"] == "list":
                    e = spec.get("extra_size", 1)
                    vals.append([torch.full((1, 2, 2), float(i * 8 + v)) for v in range(views)]
                                + [torch.full((1, e, e), float(i * 8 + views + v) + 0.5) for v in range(spec.get("extra_views", 0))])
                else:
                    vals.append(torch.full((1, 2, 2), float(i * 8)) + torch.arange(4.0).view(1, 2, 2) / 8)
            elif it == "index":
                vals.append(100 + i)
            elif it == "class":
                vals.append(i % 3)
        sample = vals[0] if len(vals) == 1 else tuple(vals)
        if spec["return_ctx"]:
            sample = (sample, {"tag": 7 * i + 1, "vec": torch.tensor([float(i), 1.0])} if spec["ctx_tags"] else {})
        out.append(sample)
    return out


class _Key:
    """crash key that call_real formats lazily: the mechanism is named after looking at the exception"""

    def __init__(self, v):
        self.v = v

    def __format__(self, _):
        return self.v

    __str__ = lambda self: self.v


def _call(run, coll, spec, B, dino, limit, what):
    """one collator call under the step budget; -> (ok, batch, ctx, expected_batch, expected_ctx)"""
    inp = _samples(spec, B, dino)
    ref = default_collate(_samples(spec, B, dino))
    key = _Key(("dino" if dino else "ijepa") + ":collate-crash")

    def fn():
        try:
            return coll(inp)
        except TypeError as e:
            if "0-d tensor" in str(e):
                key.v = "ijepa:one-element-mask"
            raise

    run.count("step_budget_runs")
    with StepBudget(limit, _codes(), what=what):
        ok, out = call_real(run, fn, crash_key=key, what=what)
    if not ok:
        return None
    if spec["return_ctx"]:
        if not (isinstance(out, tuple) and len(out) == 2 and isinstance(out[1], dict)):
            run.violation(("dino" if dino else "ijepa") + ":return-layout", f"{what}: return_ctx=True but the call returned {type(out).__name__}")
            return None
        batch, ctx = out
        ref_batch, ref_ctx = ref
    else:
        batch, ctx, ref_batch, ref_ctx = out, None, ref, None
    run.count("batch_passthrough_checked")
    pre = "dino" if dino else "ijepa"
    if not same(batch, ref_batch):
        run.violation(f"{pre}:batch-changed", f"{what}: returned batch differs from default collation of the input: {_s(batch)} vs {_s(ref_batch)}")
    if ctx is not None:
        own = {"mask"} if dino else {"encoder_masks", "predictor_masks"}
        rest = {k: v for k, v in ctx.items() if k not in own}
        if not same(rest, ref_ctx):
            run.violation(f"{pre}:ctx-changed", f"{what}: foreign ctx entries differ from default collation: {_s(rest)} vs {_s(ref_ctx)}")
    return batch, ctx


# ------------------------------------------------------------------------------------------------- DINO
def _max_nonempty(B, views, p):
    """floor(B*views*p): exact rational arithmetic on the value mask_prob really has (a double), and what the documented
    float expression int(batch*views*prob) gives where the two differ"""
    return max(int(math.floor(Fraction(p) * (B * views))), int(B * views * p))


def _int_bounds(p, n, up):
    vals = [p * n, float(np.float32(p) * np.float32(n)), Fraction(p) * n, Fraction(repr(float(p))) * n]
    return max(int(math.ceil(v)) if up else int(math.floor(v)) for v in vals)


def _run_dino(run, spec):
    H, W, views, p = spec["H"], spec["W"], spec["views"], spec["p"]
    hist = _as_history(spec["B"], spec["calls"])
    cells = H * W
    ratio = spec["ratio"]
    rmax = ratio if not isinstance(ratio, list) else ratio[1]
    kw = dict(mask_ratio=ratio if not isinstance(ratio, list) else tuple(ratio), mask_prob=p,
              mask_size=H if H == W and spec["seed"] % 2 == 0 else (H, W), num_views=views,
              min_num_patches=spec["min_num_patches"], min_aspect=spec["min_aspect"], max_aspect=spec["max_aspect"],
              dataset_mode=spec["mode"], return_ctx=spec["return_ctx"])
    what = (f"KDDinoMaskCollator({ {k: v for k, v in kw.items()} }) batch sizes {hist} x={spec['x_form']}"
            + (f" of {views}+{spec['extra_views']} views (extra crops {spec.get('extra_size', 1)}x{spec.get('extra_size', 1)})" if spec.get("extra_views") and spec["x_form"] == "list" else ""))
    GlobalRngSentinel.seed_all(spec["g"])
    ok, coll = call_real(run, lambda: KDDinoMaskCollator(**kw).set_rng(np.random.default_rng(spec["seed"])), crash_key="dino:ctor-crash", what=what)
    if not ok:
        return
    mnp = spec["min_num_patches"]
    reconf = spec.get("reconf") or {}
    p_cls = "0" if p == 0 else "1" if p == 1 else "int" if float(p * hist[0] * views).is_integer() else "frac"
    r_cls = "scalar" if not isinstance(ratio, list) else "lo0" if ratio[0] == 0 else "hi1" if ratio[1] == 1 else "eq" if ratio[0] == ratio[1] else "range"
    extra = spec.get("extra_views", 0) if spec["x_form"] == "list" else 0
    run.cover("dino", "B1" if 1 in hist else "B>1", _hist_class(hist), views, "multicrop" if extra else "plain",
              "+".join(sorted({a for ch in reconf.values() for a in ch})) or "fixed-config", p_cls, r_cls, "3" if min(H, W) == 3 else "sq" if H == W else "rect",
              len(spec["mode"].split(" ")), spec["x_form"], spec["return_ctx"])
    for c, B in enumerate(hist):
        # every per-call clause is applied to every call of the history, with the batch size of THAT call and the
        # configuration the object has at THAT call
        ch = reconf.get(str(c))
        if ch:
            for attr, val in ch.items():
                val = tuple(val) if isinstance(val, list) else val
                setattr(coll, attr, val)
                if getattr(coll, attr, None) != val:
                    run.count("reconfigured_attribute_not_reported_back")  # no verdict against a value the object does not report
                    return
            if "mask_ratio" in ch:
                rmax = ch["mask_ratio"][1]
            p = ch.get("mask_prob", p)
            views = ch.get("num_views", views)
            mnp = ch.get("min_num_patches", mnp)
            if views != spec["views"]:
                spec = dict(spec, views=views)  # the input carries the configured number of (global) views
            what += f" | before call {c}: {ch}"
        if any(int(k) <= c for k in reconf):
            run.count("dino_calls_after_reconfiguration")
        n = B * views
        max_nonempty = _max_nonempty(B, views, p)
        if spec.get("boundary"):
            run.count("dino_budget_boundary_calls")
        max_cells = _int_bounds(rmax, cells, up=True)
        # logical step budget: at most T blocks per mask (each adds >= 1 cell), a block iterates over at most
        # ~2.5*max(remaining, min_num_patches) cells and is found within 10 attempts
        T = max_cells + 1
        per_mask = sum(3 * max(r, mnp) + 60 for r in range(1, T + 1))
        limit = 3 * (n * per_mask + 20 * n) + 2000
        if c > 0 and B != hist[c - 1]:
            run.count("dino_calls_after_batch_size_change")
        if extra:
            run.count("dino_multicrop_calls")
        r = _call(run, coll, spec, B, True, limit, f"{what} call {c} (B={B})")
        if r is None:
            return
        _, ctx = r
        if ctx is None:
            run.count("dino_calls_without_ctx")
            continue
        V = lambda key, msg: run.violation(key, f"{what} call {c} (B={B}): {msg}")
        if "mask" not in ctx:
            V("dino:ctx-mask-missing", f"ctx has keys {sorted(ctx)}")
            return
        m = ctx["mask"]
        if not torch.is_tensor(m) or m.dtype != torch.bool:
            V("dino:mask-dtype", f"ctx['mask'] is {type(m).__name__} of dtype {getattr(m, 'dtype', None)}, promised a boolean mask")
            return
        if tuple(m.shape) != (n, H, W):
            V("dino:mask-shape", f"ctx['mask'] has shape {tuple(m.shape)}, promised (B*views, H, W) = {(n, H, W)}")
            return
        run.count("dino_calls_checked")
        sums = m.flatten(1).sum(1).tolist()
        nonempty = sum(1 for s in sums if s > 0)
        run.count("dino_nonempty_masks_seen", nonempty)
        if nonempty == max_nonempty and nonempty > 0:
            run.count("dino_nonempty_bound_attained")
        if sums and max(sums) == max_cells and max_cells > 0:
            run.count("dino_ratio_bound_attained")
        if nonempty > max_nonempty:
            V("dino:too-many-nonempty", f"{nonempty} non-empty masks, promised at most floor({n}*{p}) = {max_nonempty}; cells per mask {sums}")
        if sums and max(sums) > max_cells:
            V("dino:mask-exceeds-ratio", f"a mask has {max(sums)} of {cells} cells set, promised at most ceil({rmax}*{cells}) = {max_cells}; cells per mask {sums}")
        if c == 0:
            run.sample({"dino": {k: spec[k] for k in ("H", "W", "B", "views", "p", "ratio")}, "cells_per_mask_call0": sums,
                        "max_nonempty": max_nonempty, "max_cells": max_cells}, cap=3)


# ------------------------------------------------------------------------------------------------- I-JEPA
def _rows_ok(run, what, name, M, rows, cells):
    """type / shape / range / order of one index matrix; -> numpy array or None"""
    if not torch.is_tensor(M) or M.is_floating_point() or M.dtype == torch.bool or M.is_complex():
        run.violation("ijepa:mask-type", f"{what}: ctx['{name}'] is {type(M).__name__} of dtype {getattr(M, 'dtype', None)}, promised an index tensor")
        return None
    if M.ndim != 2 or M.shape[0] != rows:
        run.violation("ijepa:row-count", f"{what}: ctx['{name}'] has shape {tuple(M.shape)}, promised {rows} rows of one common length")
        return None
    A = M.numpy().astype(np.int64)
    if A.size:
        if A.min() < 0 or A.max() >= cells:
            bad = int(np.argmax((A < 0).any(1) | (A >= cells).any(1)))
            run.violation("ijepa:index-out-of-range", f"{what}: {name} row {bad} = {A[bad].tolist()} leaves [0, {cells})")
            return None
        inc = (A[:, 1:] > A[:, :-1]).all(1)
        if not inc.all():
            bad = int(np.argmin(inc))
            run.violation("ijepa:rows-not-strictly-increasing", f"{what}: {name} row {bad} = {A[bad].tolist()} is not sorted and duplicate-free")
            return None
    return A


def _rect_sizes(A, W):
    """per row: (h, w) if the row is exactly a full rectangle of the H x W grid, else None"""
    if A.shape[1] == 0:
        return [(0, 0)] * A.shape[0]
    r, c = A // W, A % W
    h = r.max(1) - r.min(1) + 1
    w = c.max(1) - c.min(1) + 1
    return [(int(a), int(b)) if a * b == A.shape[1] else None for a, b in zip(h, w)]


def _check_ijepa_ctx(run, spec, ctx, B, what, in_domain, pred_ub):
    """-> (pred_size, enc_size or None) or None if the structure is broken"""
    H, W, n_enc, n_pred = spec["H"], spec["W"], spec["n_enc"], spec["n_pred"]
    cells = H * W
    for k in ("encoder_masks", "predictor_masks"):
        if k not in ctx:
            run.violation("ijepa:ctx-masks-missing", f"{what}: ctx has keys {sorted(ctx)}")
            return None
    E = _rows_ok(run, what, "encoder_masks", ctx["encoder_masks"], n_enc * B, cells)
    P = _rows_ok(run, what, "predictor_masks", ctx["predictor_masks"], n_pred * B, cells)
    if E is None or P is None:
        return None
    run.count("ijepa_calls_checked")
    run.count("ijepa_rows_checked", len(E) + len(P))
    sizes = _rect_sizes(P, W)
    if any(s is None for s in sizes):
        bad = sizes.index(None)
        run.violation("ijepa:predictor-not-rectangle", f"{what}: predictor row {bad} = {P[bad].tolist()} is not a full rectangle of the {H}x{W} grid")
        return None
    run.count("ijepa_pred_rectangles_decoded", len(sizes))
    if len(set(sizes)) != 1:
        run.violation("ijepa:predictor-sizes-differ", f"{what}: predictor rectangles of one call have sizes {sorted(set(sizes))}")
        return None
    psize = sizes[0]
    if E.shape[1] > spec["min_keep"]:
        run.count("ijepa_encoder_rows_longer_than_min_keep")
    # encoder / predictor disjointness per sample
    occ = np.zeros((B, cells), dtype=bool)
    if P.shape[1]:
        occ[np.repeat(np.arange(B)[None, :], n_pred, 0).reshape(-1, 1), P] = True
    hit = occ[np.repeat(np.arange(B)[None, :], n_enc, 0).reshape(-1, 1), E] if E.shape[1] else np.zeros((len(E), 0), dtype=bool)
    overlap_rows = np.nonzero(hit.any(1))[0]
    judged = in_domain and psize[0] * psize[1] <= pred_ub
    if in_domain and not judged:
        run.count("ijepa_pred_block_exceeds_size_model")
    if judged:
        run.count("ijepa_disjointness_checked_in_domain")
        if len(overlap_rows):
            j = int(overlap_rows[0])
            b = j % B
            shared = sorted(set(E[j].tolist()) & set(P[[q * B + b for q in range(n_pred)]].reshape(-1).tolist()))
            run.violation("ijepa:encoder-overlaps-predictor",
                          f"{what}: encoder row {j} (sample {b}) shares indices {shared[:12]} with the sample's predictor masks "
                          f"(predictor block {psize}, min_keep {spec['min_keep']}, model: smallest encoder block {ijepa_model(spec)[0]}, largest predictor block {pred_ub})")
    else:
        run.count("ijepa_out_of_domain_calls")
        if len(overlap_rows):
            run.count("ijepa_out_of_domain_overlaps_seen")
    esize = None
    if P.shape[1] == 0:
        es = _rect_sizes(E, W)
        if all(s is not None for s in es) and len(set(es)) == 1:
            esize = es[0]
            run.count("ijepa_encoder_size_decoded")
        else:
            run.count("ijepa_encoder_size_undecodable")  # not a clause of the property: evidence only
    return psize, esize


def _run_ijepa(run, spec):
    H, W, n_enc, n_pred, patch = spec["H"], spec["W"], spec["n_enc"], spec["n_pred"], spec["patch"]
    enc_lb, pred_ub = ijepa_model(spec)
    in_domain = enc_lb - n_pred * pred_ub > spec["min_keep"]
    if not enc_lb > spec["min_keep"]:
        raise core.Inconclusive(f"harness: spec outside the driven domain (min_keep {spec['min_keep']} >= modelled encoder block {enc_lb})")
    # the grid the masks are judged on is (H, W) of the spec; input and patch size are derived from it independently of
    # the collator: input = grid * patch per axis
    ph, pw = patch if isinstance(patch, list) else (patch, patch)
    rh, rw = spec.get("rem", [0, 0])  # the grid is floor(input / patch) per axis: a remainder below one patch is cut off
    ih, iw = H * ph + rh, W * pw + rw
    assert (ih // ph, iw // pw) == (H, W) and 0 <= rh < ph and 0 <= rw < pw
    if rh or rw:
        run.count("ijepa_cases_with_input_remainder")
    if 2 * rh > ph or 2 * rw > pw:
        run.count("ijepa_cases_with_remainder_above_half_patch")
    size = ih if spec["size_form"] == "int" and ih == iw else (ih, iw)
    patch = tuple(patch) if isinstance(patch, list) else patch
    if ph != pw:
        run.count("ijepa_cases_with_nonsquare_patch")
    kw = dict(input_size=size, patch_size=patch, encoder_mask_scale=tuple(spec["enc_scale"]), predictor_mask_scale=tuple(spec["pred_scale"]),
              predictor_aspect_ratio=tuple(spec["pred_ar"]), num_enc_masks=n_enc, num_pred_masks=n_pred, min_keep=spec["min_keep"],
              tries=spec["tries"], dataset_mode=spec["mode"], return_ctx=spec["return_ctx"])
    base = f"KDIjepaMaskCollator({kw})"
    mk_cls = "mk0" if spec["min_keep"] == 0 else "mkmax" if enc_lb - n_pred * pred_ub - 1 == spec["min_keep"] else "mk"
    run.cover("ijepa", "+".join(sorted({a for ch in (spec.get("reconf") or {}).values() for a in ch})) or "fixed-config", spec["cls"], in_domain, "sq" if H == W else "rect", "patch-sq" if ph == pw else "patch-tall" if ph > pw else "patch-wide",
              "input-sq" if ih == iw else "input-rect", "rem0" if not (rh or rw) else "rem>half" if (2 * rh > ph or 2 * rw > pw) else "rem<=half", "3" if min(H, W) == 3 else "g", n_enc, n_pred, mk_cls,
              "B1" if 1 in _as_history(spec["B"][0], spec["steps"]) else "B>1", _hist_class(_as_history(spec["B"][0], spec["steps"])),
              spec["return_ctx"])

    def budget(B, cfg):
        # documented relaxation: one constraint is dropped every `tries` failures -> at most n_pred*tries+1 attempts per
        # encoder mask, each touching at most n_pred regions
        ne, np_ = cfg["n_enc"], cfg["n_pred"]
        return 3 * (B * ne * (np_ * cfg["tries"] + 1) * (np_ + 2) + B * (3 * (np_ + ne) + 6)) + 300

    def make(i, kw=kw):
        GlobalRngSentinel.seed_all(spec["g"][i])
        ok, c = call_real(run, lambda: KDIjepaMaskCollator(**kw).set_rng(np.random.default_rng(spec["seeds"][i])), crash_key="ijepa:ctor-crash", what=base)
        return c if ok else None

    # configuration in force at each call: public attributes are reassigned before the calls named in spec["reconf"]
    reconf = spec.get("reconf") or {}
    cfgs, cur = [], spec
    for s in range(spec["steps"]):
        if str(s) in reconf:
            cur = dict(cur, **reconf[str(s)])
        lb, ub = ijepa_model(cur)
        if not lb > cur["min_keep"]:
            raise core.Inconclusive(f"harness: reconfiguration outside the driven domain at call {s}")
        cfgs.append((cur, lb - cur["n_pred"] * ub > cur["min_keep"], ub))

    sizes = []  # per collator: list over steps of (pred_size, enc_size)
    for i in range(2):
        coll = make(i)
        if coll is None:
            return
        hist = _as_history(spec["B"][i], spec["steps"])
        mine = []
        note = ""
        for s, B in enumerate(hist):
            cfg, cfg_in_domain, cfg_pred_ub = cfgs[s]
            if str(s) in reconf:
                for k, val in reconf[str(s)].items():
                    val = tuple(val) if isinstance(val, list) else val
                    setattr(coll, IJEPA_ATTR[k], val)
                    if getattr(coll, IJEPA_ATTR[k], None) != val:
                        run.count("reconfigured_attribute_not_reported_back")  # no verdict against a value the object does not report
                        return
                note = f" | before call {s}: { {IJEPA_ATTR[k]: v for k, v in reconf[str(s)].items()} }"
            if note:
                run.count("ijepa_calls_after_reconfiguration")
            what = f"{base} batch sizes {hist} rng={spec['seeds'][i]}{note} call {s} (B={B})"
            if s > 0 and B != hist[s - 1]:
                run.count("ijepa_calls_after_batch_size_change")
            r = _call(run, coll, spec, B, False, budget(B, cfg), what)
            if r is None:
                return
            if r[1] is None:
                run.count("ijepa_calls_without_ctx")
                continue
            got = _check_ijepa_ctx(run, cfg, r[1], B, what, cfg_in_domain, cfg_pred_ub)
            if got is None:
                return
            mine.append(got)
        sizes.append(mine)
    if not spec["return_ctx"]:
        return
    # third collator: constructed with the configuration in force at the last call, advanced to the same step by calling
    # step() itself, then one collation
    third = None
    if spec["steps"] >= 2:
        cfg, cfg_in_domain, cfg_pred_ub = cfgs[-1]
        kw3 = dict(kw, **{IJEPA_ATTR[k]: (tuple(cfg[k]) if isinstance(cfg[k], list) else cfg[k]) for k in IJEPA_CFG_KEYS})
        coll = make(2, kw3)
        if coll is None:
            return
        B = spec["B"][2]
        what = f"KDIjepaMaskCollator({kw3}) B={B} rng={spec['seeds'][2]} after {spec['steps'] - 1} x step()"
        ok, _ = call_real(run, lambda: [coll.step() for _ in range(spec["steps"] - 1)], crash_key="ijepa:step-crash", what=what)
        if not ok:
            return
        r = _call(run, coll, spec, B, False, budget(B, cfg), what)
        if r is None:
            return
        third = _check_ijepa_ctx(run, cfg, r[1], B, what, cfg_in_domain, cfg_pred_ub)
        if third is None:
            return
    run.count("ijepa_step_size_differential_checked")
    a, b = sizes
    for s in range(spec["steps"]):
        if a[s][0] != b[s][0] or (a[s][1] is not None and a[s][1] != b[s][1]):
            run.violation("ijepa:sizes-depend-on-more-than-step",
                          f"{base}: at call {s} two collators that differ only in rng ({spec['seeds'][:2]}), batch-size history ({spec['B'][:2]}) and global "
                          f"RNG state emit block sizes predictor/encoder {a[s]} vs {b[s]}")
            return
    if third is not None:
        last = a[spec["steps"] - 1]
        if third[0] != last[0] or (last[1] is not None and third[1] != last[1]):
            run.violation("ijepa:sizes-depend-on-more-than-step",
                          f"{base}: a collator constructed with the configuration of the last call ({ {k: cfgs[-1][0][k] for k in IJEPA_CFG_KEYS} }) and advanced with "
                          f"{spec['steps'] - 1} x step() emits block sizes {third} at its first call, the collator at the same step after "
                          f"{spec['steps'] - 1} calls (reconfigured by {reconf}) emits {last}")
            return
    if len({x[0] for x in a}) > 1:
        run.count("ijepa_pred_size_varied_with_step")
    run.sample({"ijepa": {k: spec[k] for k in ("H", "W", "enc_scale", "pred_scale", "pred_ar", "n_enc", "n_pred", "min_keep", "cls")},
                "in_domain": in_domain, "model": [enc_lb, pred_ub], "sizes_per_step_pred_enc": a}, cap=6)


class _Limited:
    """the Run, except that at most PER_KEY witnesses per mechanism are written out (all are counted): a flood of one
    mechanism must not use up the runner's witness cap and hide a different one"""
    PER_KEY = 5

    def __init__(self, run):
        self._run = run

    def __getattr__(self, name):
        return getattr(self._run, name)

    def violation(self, key, what, spec=None):
        self._run.count(f"witnesses[{key}]")
        if self._run.counters[f"witnesses[{key}]"] <= self.PER_KEY:
            self._run.violation(key, what, spec)


def run_case(run, spec):
    run = _Limited(run)
    if spec["kind"] == "dino":
        _run_dino(run, spec)
    else:
        _run_ijepa(run, spec)


def _s(v):
    r = repr(v)
    return r if len(r) < 300 else r[:300] + "…"
