"""C11 cross-interpreter clause, child side: compute the seeded results of a few mix configurations in a fresh interpreter
(own PYTHONHASHSEED) and print them as one JSON line.

usage: python -m kdv.h11_child < {"configs": [spec, ...]}        (started by kdv.c11; not a check of its own)
"""
from __future__ import annotations

import json
import os
import sys


def main():
    os.environ.setdefault("OMP_NUM_THREADS", "1")
    sys.dont_write_bytecode = True
    import warnings
    warnings.filterwarnings("ignore")
    from kdv import core
    if str(core.REPO) != "/repo":
        sys.path.insert(0, str(core.REPO))
    import torch
    torch.set_num_threads(1)
    import kappadata
    from pathlib import Path
    from kdv import c11
    kd = str(Path(kappadata.__file__).resolve())
    if not kd.startswith(str(core.REPO.resolve())):
        print(c11.XPROC_MARK + json.dumps({"fatal": f"kappadata imported from {kd}, expected under {core.REPO}"}))
        return 0
    req = json.loads(sys.stdin.read())
    out = []
    for cfg in req["configs"]:
        try:
            out.append({"table": c11.xproc_table(cfg)})
        except Exception as e:
            out.append({"error": f"{type(e).__name__}: {e}"})
    print(c11.XPROC_MARK + json.dumps({"hashseed": os.environ.get("PYTHONHASHSEED"), "pid": os.getpid(), "results": out}))
    return 0


if __name__ == "__main__":
    sys.exit(main())
